"""obligations.py — which CBMC queries decide which property, at which bounds, per tier.

Every entry is an engine.Obl: (harness C file, units of real code to translate, concrete bound tuple).  Lengths
are concrete per query and every length in the listed range is a separate query; contents are symbolic.
"""
import os, sys
sys.path.insert(0, os.path.join(os.path.dirname(os.path.abspath(__file__)), "lib"))
from engine import Obl, Unit  # noqa

Q, T = "quick", "thorough"


def U(roots, cfg="default", stubs=(), prefix=""):
    if isinstance(roots, str):
        roots = [roots]
    return Unit(cfg, roots, stubs, prefix)


def lens(tier, quick, thorough):
    return list(quick if tier == Q else thorough)


# ------------------------------------------------------------------------------------------------ kernels
def ipv4_kernels(tier, cfg="default", tag=""):
    o = []
    us = ["ref_ipv4_parse.2:4", "ref_ipv4_parse.3:4", "ref_ipv4_serialize.0:5"]
    # try_parse_ipv4_fast: soundness of the pure-decimal shortcut (and completeness on its own domain)
    for n in lens(tier, (0, 6, 7, 8, 11, 15, 16, 17), range(0, 19)):
        o.append(Obl(f"ipv4_fast{tag}_n{n}", "ipv4_fast.c", [U("vk_ipv4_fast", cfg)],
                     defs={"N": n, "KERNEL": "F_vk_ipv4_fast", "COMPLETE": 1}, unwind=max(n + 2, 6), unwindset=us,
                     witness=(7 <= n <= 16), mem_gb=4))
    # parse_ipv4_number on one part
    for n in lens(tier, (0, 1, 2, 3, 5, 8), range(0, 15)):
        o.append(Obl(f"ipv4_number{tag}_n{n}", "ipv4_number.c", [U("vk_ipv4_number", cfg)],
                     defs={"N": n, "KERNEL": "F_vk_ipv4_number"}, unwind=max(n + 2, 10), witness=(n >= 1), mem_gb=4, backend="kissat"))
    for cls, name, ls in ((1, "dec", (9, 10, 11)), (2, "hex", (9, 10, 11)), (3, "oct", (11, 12, 13))):
        for n in lens(tier, ls[1:2], ls):
            o.append(Obl(f"ipv4_number{tag}_{name}_n{n}", "ipv4_number.c", [U("vk_ipv4_number", cfg)],
                         defs={"N": n, "KERNEL": "F_vk_ipv4_number", "DIGCLASS": cls}, unwind=max(n + 2, 10), mem_gb=6, backend="kissat",
                         timeout=(200 if tier == Q else 1800), weight=4))
    # is_ipv4 == ends-in-a-number
    for n in lens(tier, (1, 2, 3, 5, 8, 12), range(1, 17)):
        o.append(Obl(f"is_ipv4{tag}_n{n}", "is_ipv4.c", [U("vk_is_ipv4", cfg)],
                     defs={"N": n, "KERNEL": "F_vk_is_ipv4"}, unwind=n + 2, unwindset=us, mem_gb=4))
    return o


def ipv4_full(tier, cfg="default", tag=""):
    """{url,url_aggregator}::parse_ipv4 against the Standard's parser+serialiser (string-building: SSO-only model)"""
    o = []
    us = ["ref_ipv4_parse.2:4", "ref_ipv4_parse.3:4", "ref_ipv4_serialize.0:5"]
    for n in lens(tier, (1, 3, 4, 5), range(1, 12)):
        o.append(Obl(f"ipv4_url{tag}_n{n}", "ipv4_parse.c", [U("vk_url_parse_ipv4", cfg)],
                     defs={"N": n, "KERNEL": "F_vk_url_parse_ipv4"}, unwind=n + 2, unwindset=us,
                     timeout=(120 if tier == Q else 1500), mem_gb=10, weight=5, backend=("kissat" if n >= 5 else None)))
    return o


def ser_ipv4(tier, cfg="default", tag=""):
    return [Obl(f"ser_ipv4{tag}", "ser_ipv4.c", [U("vk_ser_ipv4", cfg)], defs={"KERNEL": "F_vk_ser_ipv4"}, unwind=4, unwindset=["ref_ipv4_serialize.0:5"],
                mem_gb=6, timeout=(120 if tier == Q else 900))]


DELIM_HOST_SPECIAL = "c==':'||c=='/'||c=='\\\\'||c=='?'||c=='['"
DELIM_HOST = "c==':'||c=='/'||c=='?'||c=='['"
DELIM_TABNL = "c==0x09||c==0x0a||c==0x0d"
DELIM_AUTH_SPECIAL = "c=='@'||c=='/'||c=='\\\\'||c=='?'"
DELIM_AUTH = "c=='@'||c=='/'||c=='?'"


def scanners(tier, cfg="default", tag=""):
    o = []
    ql = (0, 1, 15, 16, 17, 31, 32, 33)
    tl = list(range(0, 49))
    for name, root, delim in (("hostdelim_special", "vk_next_host_delim_special", DELIM_HOST_SPECIAL),
                              ("hostdelim", "vk_next_host_delim", DELIM_HOST)):
        for n in lens(tier, ql, tl):
            o.append(Obl(f"scan_{name}{tag}_n{n}", "scan_first.c", [U(root, cfg)],
                         defs={"N": n, "KERNEL": "F_" + root, "DELIM(c)": "(" + delim + ")", "WITH_P0": 1},
                         unwind=n + 2, witness=(n >= 2), mem_gb=6, timeout=(120 if tier == Q else 900)))
    for n in lens(tier, ql, tl):
        o.append(Obl(f"scan_tabnl{tag}_n{n}", "scan_bool.c", [U("vk_has_tabs_or_newline", cfg)],
                     defs={"N": n, "KERNEL": "F_vk_has_tabs_or_newline", "DELIM(c)": "(" + DELIM_TABNL + ")"},
                     unwind=n + 2, witness=(n >= 1), mem_gb=6, timeout=(120 if tier == Q else 900)))
    if cfg == "default":
        for name, root, delim in (("authdelim_special", "vk_authority_delim_special", DELIM_AUTH_SPECIAL),
                                  ("authdelim", "vk_authority_delim", DELIM_AUTH)):
            for n in lens(tier, (0, 1, 5, 9), range(0, 21)):
                o.append(Obl(f"scan_{name}{tag}_n{n}", "scan_first.c", [U(root, cfg)],
                             defs={"N": n, "KERNEL": "F_" + root, "DELIM(c)": "(" + delim + ")"},
                             unwind=n + 2, witness=(n >= 2), mem_gb=4))
    return o


def pct_tables(tier):
    return [Obl("pct_bitmaps_and_hex", "pct_bit.c", [U(["vk_bit_at", "vk_hex_entry"])], unwind=2, mem_gb=4)]


def pct_encode(tier):
    o = []
    for variant in (0, 1, 2, 3):
        for n in lens(tier, (0, 1, 2, 3) if variant != 1 else (0, 1, 3, 4), range(0, 5)):
            o.append(Obl(f"pct_encode_v{variant}_n{n}", "pct_encode.c",
                         [U(["vk_percent_encode", "vk_percent_encode_idx", "vk_percent_encode_out"])],
                         defs={"N": n, "VARIANT": variant}, unwind=n + 2, unwindset=["ref_percent_encode.0:17"],
                         witness=(n >= 1), mem_gb=8, timeout=(150 if tier == Q else 900), weight=3))
    return o


def pct_decode(tier):
    o = []
    for form in (0, 1):
        for n in lens(tier, (0, 1, 3, 4, 6), range(0, 11)):
            d = {"N": n}
            if form:
                d["FORM"] = 1
            o.append(Obl(f"pct_decode_{'form' if form else 'plain'}_n{n}", "pct_decode.c",
                         [U(["vk_percent_decode", "vk_form_decode"])], defs=d, unwind=n + 2,
                         unwindset=["ref_percent_decode.0:17"], witness=(n >= 3), mem_gb=8,
                         timeout=(150 if tier == Q else 900), weight=3))
    return o


def pct_roundtrip(tier):
    o = []
    for form in (1, 0):
        for n in lens(tier, (1, 2) if form else (1, 2, 3), range(0, 4) if form else range(0, 5)):
            d = {"N": n}
            if form:
                d["FORM"] = 1
            o.append(Obl(f"pct_roundtrip_{'form' if form else 'url'}_n{n}", "pct_roundtrip.c",
                         [U(["vk_percent_encode", "vk_percent_decode", "vk_form_decode"])], defs=d, unwind=3 * n + 2,
                         witness=(n >= 1), mem_gb=(16 if form else 10), timeout=((300 if form else 150) if tier == Q else 1500), weight=4))
    return o


# cross-configuration (C18): same kernel from two builds in one query
def xcfg(tier):
    o = []
    ql = (0, 1, 15, 16, 17, 31, 32, 33)
    tl = list(range(0, 49))
    for name, root, withp0 in (("hostdelim_special", "vk_next_host_delim_special", True),
                               ("hostdelim", "vk_next_host_delim", True),
                               ("tabnl", "vk_has_tabs_or_newline", False)):
        for other in ("ssse3", "avx512"):
            for n in lens(tier, ql, tl):
                d = {"N": n, "KERNEL_A": "F_" + root, "KERNEL_B": "B_F_" + root}
                if withp0:
                    d["WITH_P0"] = 1
                o.append(Obl(f"xcfg_{name}_{other}_n{n}", "xcfg.c", [U(root), U(root, other, prefix="B_")], defs=d,
                             unwind=n + 2, witness=(n >= 2), mem_gb=8, timeout=(150 if tier == Q else 900)))
    for n in lens(tier, (6, 7, 9, 12, 15, 16, 17), range(0, 19)):
        o.append(Obl(f"xcfg_ipv4_fast_avx512_n{n}", "xcfg.c", [U("vk_ipv4_fast"), U("vk_ipv4_fast", "avx512", prefix="B_")],
                     defs={"N": n, "KERNEL_A": "F_vk_ipv4_fast", "KERNEL_B": "B_F_vk_ipv4_fast"}, unwind=max(n + 2, 6),
                     witness=(7 <= n <= 16), mem_gb=6))
    return o


# ------------------------------------------------------------------------------------------------ url_aggregator steps
from engine import STR_REPLACE, STR_STUBS, TO_ASCII  # noqa

STEP_OPS = [
    # name, root, value lengths (quick, thorough), defs
    ("clear_port", "vk_st_clear_port", (0,), (0,), {"OP_CLEAR_PORT": 1}),
    ("clear_search", "vk_st_clear_search", (0,), (0,), {"OP_CLEAR_SEARCH": 1}),
    ("clear_hash", "vk_st_clear_hash", (0,), (0,), {"OP_CLEAR_HASH": 1}),
    ("clear_pathname", "vk_st_clear_pathname", (0,), (0,), {"OP_CLEAR_PATHNAME": 1}),
    ("update_search", "vk_st_update_base_search_enc", (2,), (1, 2, 3), {"OP_UPDATE_SEARCH_ENC": 1}),
    ("set_username", "vk_st_set_username", (0, 1), (0, 1, 2), {"OP_SET_USERINFO": "F_USER"}),
    ("set_password", "vk_st_set_password", (0, 1), (0, 1, 2), {"OP_SET_USERINFO": "F_PASS"}),
    ("set_port", "vk_st_set_port", (0, 2), (0, 1, 2, 3, 5), {"OP_SET_PORT": 1}),
    ("set_search", "vk_st_set_search", (0, 2), (0, 1, 2, 3), {"OP_SET_QF": "F_SEARCH"}),
    ("set_hash", "vk_st_set_hash", (0, 2), (0, 1, 2, 3), {"OP_SET_QF": "F_HASH"}),
    ("set_pathname", "vk_st_set_pathname", (0, 2), (0, 1, 2, 3), {"OP_SET_PATHNAME": 1}),
    ("set_protocol", "vk_st_set_protocol", (2, 3), (0, 1, 2, 3, 4, 5), {"OP_SET_PROTOCOL": 1}),
    # internal editors (the primitives every setter and the parser are built from), each under the precondition its
    # callers establish (harness/step_pre.h) and with its own slot / frame / length postcondition (harness/step_ops.h)
    ("ed_clear_hostname", "vk_st_clear_hostname", (0,), (0,), {"OP_EDIT": 1}),
    ("ed_clear_password", "vk_st_clear_password", (0,), (0,), {"OP_EDIT": 2}),
    ("ed_update_username", "vk_st_update_base_username", (0, 2), (0, 1, 2, 3), {"OP_EDIT": 3}),
    ("ed_update_password", "vk_st_update_base_password", (0, 2), (0, 1, 2, 3), {"OP_EDIT": 4}),
    # append_base_username / append_base_password (OP_EDIT 5, 6) are NOT registered: their only callers are in the parser's
    # AUTHORITY state, on a half-built URL (host still empty, nothing behind it) that is outside INV; under the setters'
    # precondition (non-empty host) the solver shows that they drop the '@' when the host is as long as the value -
    # a state no caller can produce (DESIGN.md section 4, false alarms).
    ("ed_update_hostname", "vk_st_update_base_hostname", (0, 2), (0, 1, 2, 3), {"OP_EDIT": 7, "INV_NO_HOST_TYPE": 1}),
    ("ed_update_port", "vk_st_update_base_port", (0,), (0,), {"OP_EDIT": 8}),
    ("ed_authority_without_guard", "vk_st_authority_without_guard", (0,), (0,), {"OP_EDIT": 9}),
    ("ed_update_pathname", "vk_st_update_base_pathname", (0, 3), (0, 1, 2, 3, 4), {"OP_EDIT": 10}),
    ("ed_append_pathname", "vk_st_append_base_pathname", (2,), (0, 1, 2, 3), {"OP_EDIT": 11}),
    ("ed_update_hash", "vk_st_update_unencoded_base_hash", (0, 1), (0, 1, 2), {"OP_EDIT": 12}),
    ("ed_set_scheme", "vk_st_set_scheme", (2, 4), (1, 2, 3, 4, 5), {"OP_EDIT": 13}),
]
EDITOR_OPS = tuple(x[0] for x in STEP_OPS if x[0].startswith("ed_"))
# set_host / set_hostname (OP_SET_HOST, IDNA cut by the TO_ASCII stub) were built and measured: no verdict within 20 min
# per query even for the empty value and with the shape case split -> not registered (DESIGN.md section 4).


def steps(tier, ops=None, with_limit=False, tag="", pick=None, cfg="default"):
    """pick: optional set of (name, m) pairs to keep in the quick tier (everything is kept in thorough)"""
    o = []
    for name, root, qm, tm, defs in STEP_OPS:
        if ops and name not in ops:
            continue
        heavy = name in HEAVY_OPS
        for n in lens(tier, (9,) if name != "update_search" else (8,), ((8, 10, 11) if name.startswith("ed_") else (6, 8, 10, 12)) if not heavy else (8,)):
            for m in lens(tier, qm, tm if not heavy else tuple(x for x in tm if x in (0, 2))):
                if tier == Q and pick is not None and (name, m) not in pick:
                    continue
                shapes = [None]
                if heavy and tier != Q:
                    # case split on the shape of the state (assigned constants prune the symbolic execution): the cases
                    # below cover: fragment present/absent x query present/absent x scheme class {http, non-special,
                    # non-special with opaque path, file}; the other special schemes (https, ws, wss, ftp) are covered by
                    # the unsplit obligations of the light setters only (stated in the evidence)
                    shapes = [(h, q, t, op) for h in (0, 1) for q in (0, 1) for (t, op) in ((0, 0), (1, 0), (1, 1), (6, 0))]
                for sh in shapes:
                    d = {"N": n, "M": m, "BN": 15, "KERNEL": "F_" + root}
                    d.update(defs)
                    sfx = ""
                    if sh is not None:
                        d.update({"SH_HASH": sh[0], "SH_SEARCH": sh[1], "SH_TYPE": sh[2], "SH_OPAQUE": sh[3]})
                        sfx = f"_h{sh[0]}q{sh[1]}t{sh[2]}o{sh[3]}"
                    _step_obl(o, name, root, n, m, d, sfx, tag, with_limit, cfg, tier)
    return o


def protocol_cases(tier):
    """set_protocol between the special schemes (case split on the scheme the state starts from): values of 2, 4 and 5
    bytes cover ws / wss / file / http / https in any letter case, on states that carry a port or credentials - the situations in
    which the protocol setter must drop a port equal to the new default or refuse the change (file with credentials/port).
    Thorough tier only (several minutes per case)."""
    o = []
    if tier == Q:
        return o
    for t, n, m in ((5, 10, 2), (4, 10, 2), (3, 8, 4), (2, 9, 4), (0, 9, 5), (3, 10, 5), (6, 8, 4)):
        d = {"N": n, "M": m, "BN": 15, "KERNEL": "F_vk_st_set_protocol", "OP_SET_PROTOCOL": 1, "SH_TYPE": t, "SH_OPAQUE": 0, "SH_HASH": 0, "SH_SEARCH": 0}
        _step_obl(o, "set_protocol", "vk_st_set_protocol", n, m, d, f"_t{t}x", "", False, "default", tier)
        o[-1].mem_gb = 30
    return o


HEAVY_OPS = ("set_search", "set_hash", "set_pathname", "set_protocol", "set_host", "set_hostname")


def _step_obl(o, name, root, n, m, d, sfx, tag, with_limit, cfg, tier):
    if True:
        if True:
            if True:
                stubs = list(STR_STUBS)
                if name in ("set_host", "set_hostname"):
                    stubs.append(TO_ASCII)
                roots = [root]
                if with_limit:
                    d["WITH_LIMIT"] = 1
                    roots.append("vk_set_limit")
                o.append(Obl(f"step{tag}_{name}_n{n}_m{m}{sfx}", "step.c", [U(roots, cfg, stubs=stubs)], defs=d, unwind=17, harness_unwind=17,
                             maxcpy=16, mem_gb=(16 if name in HEAVY_OPS else 8), timeout=(600 if tier == Q else 1800), weight=10 + m,
                             allow_vacuous=bool(sfx)))


# ------------------------------------------------------------------------------------------------ properties
def for_property(pid, tier):
    f = globals().get("prop_" + pid)
    if not f:
        return []
    obls = f(tier)
    seen = set()
    out = []
    for ob in obls:
        if tier not in ob.tiers:
            continue
        if ob.name in seen:
            raise RuntimeError("duplicate obligation " + ob.name)
        seen.add(ob.name)
        out.append(ob)
    return out


def ipv6_ser(tier):
    o = [Obl("ipv6_longest_zero_run", "ipv6_ser.c", [U("vk_ipv6_longest")], defs={"MODE": 0}, unwind=10, mem_gb=6, timeout=300)]
    o.append(Obl("ipv6_serialize_classes", "ipv6_ser.c", [U("vk_ser_ipv6")], defs={"MODE": 1, "CLASS": 1}, unwind=12, no_heap=False,
                 helper_unwind=50, maxcpy=48, mem_gb=12, timeout=(400 if tier == Q else 1800), weight=9))
    if tier != Q:
        o.append(Obl("ipv6_serialize_all", "ipv6_ser.c", [U("vk_ser_ipv6")], defs={"MODE": 1}, unwind=12, no_heap=False,
                     helper_unwind=50, maxcpy=48, mem_gb=16, timeout=3000, weight=9, backend="kissat"))
    return o


SER_IPV6 = "_ZN3ada11serializers4ipv6B5cxx11ERKSt5arrayItLm8EE"


def ipv6_parse(tier):
    o = []
    for n in lens(tier, (0, 2, 3), range(0, 12)):
        o.append(Obl(f"ipv6_url_n{n}", "ipv6_parse.c", [U("vk_url_parse_ipv6", stubs=[SER_IPV6])], defs={"N": n, "KERNEL": "F_vk_url_parse_ipv6", "STUB_SER": 1},
                     unwind=n + 2, harness_unwind=20, witness=(n >= 2), mem_gb=10, replay="generated",
                     timeout=(400 if tier == Q else 2400), weight=8 + n))
    return o


def dns_len(tier):
    """checkers::verify_dns_length (has_valid_domain) vs the DNS limits; lengths around the 63 / 253 / 254 boundaries"""
    o = []
    for n in lens(tier, (0, 1, 2, 5, 12, 24), list(range(0, 33))):
        o.append(Obl(f"dns_len_n{n}", "dns_len.c", [U("vk_verify_dns_length")], defs={"N": n, "KERNEL": "F_vk_verify_dns_length"},
                     unwind=n + 2, helper_unwind=n + 2, harness_unwind=n + 2, witness=(1 <= n <= 254), mem_gb=8,
                     timeout=(120 if tier == Q else 1800), weight=(1 if n < 30 else 4)))
    # the 63 / 253 / 254 boundaries: all strings with at most two dots (symbolic positions), other bytes symbolic
    for n in lens(tier, (), (63, 64, 65, 66, 253, 254)) + [255, 256]:
        o.append(Obl(f"dns_len2_n{n}", "dns_len.c", [U("vk_verify_dns_length")], defs={"N": n, "KERNEL": "F_vk_verify_dns_length", "DOTS2": 1},
                     unwind=n + 2, helper_unwind=n + 2, harness_unwind=n + 2, witness=(1 <= n <= 254), mem_gb=10,
                     timeout=(300 if tier == Q else 1800), weight=4))
    return o


def prop_C10(tier):
    return ipv4_kernels(tier) + ser_ipv4(tier) + ipv4_full(tier) + ipv6_ser(tier) + ipv6_parse(tier) + dns_len(tier)


def prop_C11(tier):
    # the http(s) fast path's byte classes must be subsets of the "no encoding needed" bytes of each component: fastpath t<=3
    fp = [x for x in fastpath(tier) if tier != Q or x.name in ("fastpath_http_t3", "fastpath_https_t3")]
    return pct_tables(tier) + pct_encode(tier) + pct_decode(tier) + pct_roundtrip(tier) + fp


def prop_C18(tier):
    # development-checks build: every ADA_ASSERT_* is a branch to abort(); from an arbitrary INV state none may fire
    dev = steps(tier, ops=("clear_port", "clear_hash", "clear_search", "set_port"), tag="_devchecks", cfg="devchecks",
                pick={("clear_port", 0), ("clear_hash", 0), ("clear_search", 0), ("set_port", 0)})
    return xcfg(tier) + ipv4_kernels(tier, "avx512", "_avx512") + dev


def inv_lemma(tier):
    return [Obl(f"inv_lemma_n{n}", "inv_lemma.c", [], defs={"N": n, "BN": 15}, unwind=17, mem_gb=6,
                timeout=(300 if tier == Q else 1800), no_heap=False, witness=(n >= 6)) for n in lens(tier, (7, 12, 15), range(2, 16))]


# quick-tier selections (each is decided in < ~4 min; the heavier setters are thorough-tier)
PICK_C07 = {("ed_update_hash", 1), ("ed_update_port", 0), ("ed_set_scheme", 2), ("clear_port", 0), ("clear_search", 0), ("clear_hash", 0), ("clear_pathname", 0), ("update_search", 2), ("set_port", 2), ("set_username", 1)}
PICK_C03 = {("ed_update_username", 2), ("ed_update_password", 0), ("ed_update_pathname", 3), ("set_username", 0), ("set_username", 1), ("set_password", 1), ("set_port", 0), ("set_port", 2), ("update_search", 2)}
PICK_C09 = {("set_username", 1), ("set_password", 1), ("set_port", 2)}
PICK_C19 = {("ed_update_hostname", 2), ("ed_authority_without_guard", 0), ("ed_clear_hostname", 0), ("ed_clear_password", 0), ("set_port", 2), ("set_password", 1), ("clear_port", 0)}


LIGHT_OPS = ("clear_port", "clear_search", "clear_hash", "clear_pathname", "update_search", "set_username", "set_password", "set_port")


def prop_C07(tier):
    # the heavy setters (shape case split, 250-630 s per case) are run once, under C03 (and under a limit, C09)
    return inv_lemma(tier) + steps(tier, ops=LIGHT_OPS + EDITOR_OPS, pick=PICK_C07)


def prop_C03(tier):
    return steps(tier, ops=("set_username", "set_password", "set_port", "set_search", "set_hash", "set_pathname", "set_protocol", "update_search") + EDITOR_OPS, pick=PICK_C03)
    # protocol_cases(tier) (set_protocol between the special schemes, case split on the starting scheme) is NOT registered:
    # measured - CBMC gives up (out of memory / solver error at 16 and at 30 GB within 4 min) on every case


def prop_C09(tier):
    return steps(tier, ops=("set_username", "set_password", "set_port", "set_search", "set_hash", "set_pathname", "set_protocol"),
                 with_limit=True, tag="_limit", pick=PICK_C09)


def url_fields(tier):
    o = []
    for which, name, ms in ((0, "protocol", lens(tier, (2, 5), (0, 1, 2, 3, 4, 5, 6))), (1, "port", lens(tier, (2,), (0, 1, 2, 3, 5)))):
        for m in ms:
            o.append(Obl(f"urlfields_set_{name}_m{m}", "url_fields.c", [U("vk_url_fields_step", stubs=STR_STUBS)], defs={"M": m, "WHICH": which, "N": 1},
                         unwind=max(m + 4, 9), harness_unwind=17, maxcpy=16, mem_gb=24, timeout=(400 if tier == Q else 1800), weight=6 + m))
    return o


def prop_C19(tier):
    # ada::url field-level steps (harness/url_fields.c): measured out of memory at 12 GB -> attempted in the thorough tier only
    return inv_lemma(tier) + steps(tier, ops=LIGHT_OPS + EDITOR_OPS, pick=PICK_C19) + (url_fields(tier) if tier != Q else [])


def prop_C05(tier):
    # canonical IPv6 serializer (part of "the href is a parse fixed point"): all addresses
    return inv_lemma(tier) + pct_encode(tier)[:6] + steps(tier, ops=("set_username", "clear_hash", "ed_update_hash", "ed_update_pathname"), pick={("set_username", 1), ("clear_hash", 0)}) + ipv6_ser(tier)


def prop_C02(tier):
    """memory safety / no-throw / termination: CBMC's pointer, bounds, shift, division and overflow instrumentation, the
    'noreturn reached' assertions and the unwinding assertions of these obligations (exact-size input objects)"""
    sc = [o for o in scanners(tier) if any(f"_n{k}" == o.name[o.name.rfind("_n"):] for k in (15, 16, 17, 31, 32, 33)) or tier != Q]
    return sc + pct_decode(tier) + [o for o in ipv4_kernels(tier) if "fast" in o.name or "number" in o.name] + steps(tier, ops=("clear_port", "clear_pathname", "set_port", "ed_update_hostname", "ed_update_username"), pick={("clear_port", 0), ("clear_pathname", 0), ("set_port", 2)})


def canparse(tier):
    o = []
    for n in lens(tier, (0, 3, 8, 9, 10, 11, 12, 14), range(0, 21)):
        o.append(Obl(f"canparse_fast_n{n}", "canparse_fast.c", [U("vk_can_parse_fast")], defs={"N": n}, unwind=n + 3,
                     unwindset=["ref_ipv4_parse.2:4", "ref_ipv4_parse.3:4"], witness=(n >= 8), mem_gb=8,
                     timeout=(200 if tier == Q else 1800), weight=n))
    return o


def twins(tier):
    o = []
    us = ["ref_ipv4_parse.2:4", "ref_ipv4_parse.3:4", "ref_ipv4_serialize.0:5"]
    # quick: length 3 only - lengths 1 and 2 are, oddly, the hard ones for the SAT back end (no verdict in 420 s, every run)
    for n in lens(tier, (3,), range(1, 11)):
        o.append(Obl(f"twin_parse_ipv4_n{n}", "twin.c", [U(["vk_url_parse_ipv4", "vk_agg_parse_ipv4"], stubs=STR_STUBS)],
                     defs={"N": n, "KERNEL_A": "F_vk_url_parse_ipv4", "KERNEL_B": "F_vk_agg_parse_ipv4", "PRECOND_IPV4": 1},
                     unwind=max(n + 2, 6), unwindset=us, maxcpy=16, mem_gb=14, timeout=(420 if tier == Q else 1800), weight=6))
    return o


def shorten(tier):
    return [Obl(f"shorten_path_n{n}", "shorten.c", [U("vk_shorten_path", stubs=STR_STUBS)], defs={"N": n}, unwind=n + 3, maxcpy=16,
                witness=(n == 3), mem_gb=8, timeout=(240 if tier == Q else 1200)) for n in lens(tier, (0, 1, 3, 4, 6), range(0, 12))]


def twinsteps(tier):
    o = []
    ops = [("nop", 0, (0,), {"NOP": 1}), ("set_port", 0, (2,), {}), ("set_username", 0, (1,), {}), ("set_password", 0, (1,), {}),
           ("set_protocol", 0, (3,), {}), ("set_search", 1, (2,), {}), ("set_hash", 1, (2,), {})]
    for name, heavy, ms, extra in ops:
        if heavy and tier == Q:
            continue
        for n in lens(tier, (8,), (6, 8, 10)):
            for m in ms:
                d = {"N": n, "M": m, "BN": 15, "KERNEL": "F_vk_tw_" + name}
                d.update(extra)
                o.append(Obl(f"twinstep_{name}_n{n}_m{m}", "twinstep.c", [U("vk_tw_" + name, stubs=STR_STUBS)], defs=d, unwind=17,
                             harness_unwind=17, maxcpy=16, mem_gb=16, timeout=(600 if tier == Q else 2400), weight=12))
    return o


def prop_C04(tier):
    # lock-step setter twins (harness/twinstep.c) were built and measured: even the identity step (build the ada::url from
    # the aggregator's getters and serialise it) runs out of 16 GB -> attempted in the thorough tier only, at the smallest size
    # the aggregator-only editors checked against the Standard's slot semantics (ada::url keeps these components as plain fields)
    agg = steps(tier, ops=("update_search", "clear_pathname"), pick={("update_search", 2), ("clear_pathname", 0)})
    return twins(tier) + shorten(tier) + agg + [x for x in twinsteps(tier) if tier != Q and x.name in ("twinstep_nop_n6_m0", "twinstep_set_port_n6_m2")]


INS_SORT = "_ZSt16__insertion_sortIN9__gnu_cxx17__normal_iteratorIPSt4pairINSt7__cxx1112basic_stringIcSt11char_traitsIcESaIcEEES8_ESt6vectorIS9_SaIS9_EEEENS0_5__ops15_Iter_comp_iterIZNSt6ranges8__detail16__make_comp_projIZN3ada17url_search_params4sortEvEUlRKS9_SN_E_St8identityEEDaRT_RT0_EUlOSQ_OSS_E_EEEvSQ_SQ_SS_"


def sortcmp(tier):
    o = []
    names = {0: "utf16", 1: "asym", 2: "trans", 3: "incomp"}
    for mode, kls in ((0, lens(tier, (1, 2), (1, 2, 3, 4))), (1, lens(tier, (), (1, 2))), (2, lens(tier, (), (1, 2))), (3, lens(tier, (), (1,)))):
        for kl in kls:
            o.append(Obl(f"sortcmp_{names[mode]}_k{kl}", "sortcmp.c", [U([INS_SORT], stubs=STR_STUBS)],
                         defs={"MODE": mode, "KL": kl, "N": 1, "INSERTION_SORT": "F_" + INS_SORT.replace("$", "_")}, unwind=kl + 4, harness_unwind=20,
                         maxcpy=16, mem_gb=(14 if mode == 0 else 24), timeout=(400 if tier == Q else 2400), weight=6 + kl, replay=False))
    return o


def prop_C12(tier):
    o = [x for x in pct_decode(tier) if "form" in x.name]
    for n in lens(tier, (1, 2), range(0, 4)):
        o.append(Obl(f"form_roundtrip_plus_n{n}", "pct_roundtrip.c", [U(["vk_percent_encode", "vk_percent_decode", "vk_form_decode"])],
                     defs={"N": n, "FORM": 1, "PLUS": 1}, unwind=3 * n + 4, witness=(n >= 1), mem_gb=16,
                     timeout=(300 if tier == Q else 1500), weight=4))
    return o + sortcmp(tier)


def capi(tier):
    o = []
    for n in lens(tier, (9, 13), (5, 7, 9, 11, 13, 15)):
        o.append(Obl(f"capi_getters_n{n}", "capi.c", [U("vk_capi_get", stubs=STR_STUBS)], defs={"N": n, "BN": 15}, unwind=17,
                     maxcpy=16, mem_gb=12, timeout=(540 if tier == Q else 1800), weight=8))
    o.append(Obl("capi_failed_mutators_n3", "capi_misc.c", [U("vk_capi_failed_mutators", stubs=STR_STUBS)], defs={"N": 3}, unwind=8,
                 maxcpy=16, mem_gb=8, timeout=300))
    o.append(Obl("capi_owned_string_release", "capi_misc.c", [U("vk_capi_owned")], defs={"N": 1, "OWNED": 1}, unwind=4,
                 no_heap=False, extra_flags=("--memory-leak-check", "--memory-cleanup-check"), mem_gb=6, timeout=300))
    return o


def prop_C17(tier):
    return capi(tier)


INFLATE = "_ZN3ada4idna7deflate11inflate_rawEPKhmPhm"
CRC32 = "_ZN3ada4idna10crc32_ieeeEPKhm"


def tables(tier):
    o = []
    for fair in lens(tier, (1, 2, 3), (1, 2, 3, 4, 5)):
        u = Unit("noinline", ["vk_ensure_tables", "vk_tables_published", "vk_tables_env_publish"], stubs=[INFLATE, CRC32], atomics_hook=True)
        o.append(Obl(f"tables_protocol_fair{fair}", "tables.c", [u],
                     defs={"VK_OWN_NOTHROW_NEW": 1, "SPIN_FAIR": fair, "G_STATE_ADDR()": "(G__ZN3ada4idna17tables_init_stateE)",
                           "INFLATE_STUB": "X_" + INFLATE, "CRC_STUB": "X_" + CRC32},
                     unwind=fair + 4, no_heap=False, mem_gb=8, timeout=(300 if tier == Q else 1800), replay="generated"))
    return o


def limit_race(tier):
    o = []
    for name, m in (("set_username", 1), ("set_password", 1), ("set_port", 2)):
        for n in lens(tier, (7,), (7, 9)):
            u = Unit("default", ["vk_st_" + name], stubs=STR_STUBS, atomics_hook=True)
            o.append(Obl(f"limit_race_{name}_n{n}_m{m}", "limit_race.c", [u], defs={"N": n, "M": m, "BN": 15, "KERNEL": "F_vk_st_" + name},
                         unwind=17, harness_unwind=60, maxcpy=16, mem_gb=16, timeout=(500 if tier == Q else 2400), weight=12, replay="generated"))
    return o


def prop_C13(tier):
    return tables(tier) + limit_race(tier)


def canon(tier):
    o = []
    names = {0: "protocol", 1: "username", 2: "password", 3: "port", 4: "search", 5: "hash", 6: "portproto", 7: "ipv6host"}
    for which in (0, 1, 3, 4, 5, 6, 7):
        for n in lens(tier, (0, 2, 4) if which not in (3, 6) else (0, 2, 5), range(0, 6) if which not in (3, 6) else range(0, 8)):
            if which in (1, 4, 5) and n > 4:
                continue
            if which == 0 and tier == Q and n > 0:
                continue   # the protocol canonicaliser does not finish within the quick caps (10 GB): thorough tier only
            for proto in ((1, 4) if which == 6 and tier == Q else (0, 1, 2, 3, 4, 5) if which == 6 else (0,)):
                d = {"N": n, "WHICH": which, "PROTO": proto}
                o.append(Obl(f"canon_{names[which]}{'_p%d' % proto if which == 6 else ''}_n{n}", "canon.c", [U("vk_canon", stubs=STR_STUBS)], defs=d,
                             unwind=max(n + 3, 8), unwindset=["ref_percent_encode.0:17"], maxcpy=16, witness=(n >= 2), mem_gb=10,
                             timeout=(240 if tier == Q else 1200), weight=3 + n))
    o.append(Obl("charclass_soundness", "charclass.c", [U("vk_char_class")], unwind=3, mem_gb=4))
    return o


def escapes(tier):
    o = []
    for which in (0, 1):
        for n in lens(tier, (0, 2, 4), range(0, 8)):
            o.append(Obl(f"escape_{'regexp' if which else 'pattern'}_n{n}", "escape.c", [U("vk_escape", stubs=STR_STUBS)],
                         defs={"N": n, "WHICH": which}, unwind=n + 3, maxcpy=16, witness=(n >= 1), mem_gb=8,
                         timeout=(240 if tier == Q else 1200)))
    return o


def prop_C15(tier):
    return canon(tier)


def prop_C14(tier):
    return escapes(tier)


def puny(tier):
    o = []
    for n in lens(tier, (0, 1, 2, 3), range(0, 6)):
        o.append(Obl(f"puny_verify_vs_decode_n{n}", "puny.c", [U(["vk_puny_verify", "vk_puny_decode"])], defs={"N": n, "MODE": 0, "K": 1},
                     unwind=n + 3, no_heap=(n <= 3), mem_gb=10, witness=(n >= 2), timeout=(240 if tier == Q else 1800), weight=3 + n))
    for k in lens(tier, (1,), (1, 2, 3)):
        o.append(Obl(f"puny_roundtrip_k{k}", "puny.c", [U(["vk_puny_encode", "vk_puny_decode"])], defs={"N": 1, "MODE": 1, "K": k},
                     unwind=12, no_heap=(k <= 3), mem_gb=12, timeout=(300 if tier == Q else 3000), weight=8, backend="kissat"))
    return o


IDNA_MAP = "_ZN3ada4idna3mapESt17basic_string_viewIDiSt11char_traitsIDiEERNSt7__cxx1112basic_stringIDiS3_SaIDiEEE"


def idna_ascii(tier):
    return [Obl(f"idna_ascii_n{n}", "idna_ascii.c", [U("vk_idna_to_ascii", stubs=STR_STUBS + [IDNA_MAP])], defs={"N": n}, unwind=n + 3,
                maxcpy=16, witness=(n >= 1), mem_gb=10, timeout=(240 if tier == Q else 1800), weight=3 + n, replay="generated")
            for n in lens(tier, (0, 1, 4, 8), range(0, 13))]


def nfc(tier):
    """NFC kernels over symbolic tables (harness/nfc.c)"""
    o = []
    for mode, name, ns in ((0, "reorder", lens(tier, (3,), (2, 3, 4, 5, 6))), (3, "hangul", lens(tier, (2,), (2,)))):
        # MODE 1 (would_compose <=> compose changes) and MODE 2 (is_already_nfc <=> its three conditions) of harness/nfc.c
        # were measured: no verdict within 40 min at N = 2 (kissat) - symbolic composition tables with the binary search
        # are out of reach; their ground is covered natively by the NFC base case (lib/tv.py idna_corpus).
        for n in ns:
            o.append(Obl(f"nfc_{name}_n{n}", "nfc.c", [U("vk_nfc_quick" if mode == 2 else "vk_nfc_kernel")], defs={"MODE": mode, "N": n}, unwind=n + 6,
                         harness_unwind=520, no_heap=False, mem_gb=16, timeout=(900 if tier == Q else 3000), weight=5 + n, replay="generated", backend="kissat"))
    return o


def prop_C06(tier):
    return idna_ascii(tier) + [x for x in puny(tier) if tier != Q or x.name in ("puny_verify_vs_decode_n0",)] + nfc(tier)


def prop_C16(tier):
    return idna_ascii(tier) + [x for x in puny(tier) if "roundtrip" in x.name and tier != Q] + nfc(tier)


def prop_C08(tier):
    return canparse(tier)


def fastpath(tier):
    o = []
    for https in (0, 1):
        for t in lens(tier, (1, 3), range(0, 8 - https)):
            d = {"T": t, "BN": 15}
            if https:
                d["HTTPS"] = 1
            o.append(Obl(f"fastpath_{'https' if https else 'http'}_t{t}", "fastpath.c", [U("vk_fast_path", stubs=STR_STUBS)], defs=d,
                         unwind=t + 3, harness_unwind=17, maxcpy=16, mem_gb=12, witness=(t >= 3),
                         timeout=(300 if tier == Q else 1800), weight=5 + t))
    return o


def prop_C01(tier):
    return scanners(tier) + shorten(tier) + fastpath(tier) + [x for x in pct_decode(tier) if "plain" in x.name]


# properties whose step obligations rest on INV: the native base case (parser results satisfy INV) is run with them
INV_BASE_CASE = ("C07", "C19", "C03", "C09", "C05")

# native base case "real parser under limits around the sizes involved" (not a solver result) accompanies these
LIMIT_BASE_CASE = ("C09", "C08")
# whole-parse differential over the corpora: which disagreement bits of vk_diff_parse count for which property
DIFF_BASE_CASE = {"C04": 1 | 2 | 4 | 64, "C05": 16 | 32, "C17": 8}
WPT_BASE_CASE = ("C01",)
# native setter sweep (every corpus URL x 10 setters x ~200 values): the only coverage of the host setters / set_href / ada::url setters
SETTER_BASE_CASE = ("C03", "C19")
# NFC vs Python unicodedata and the WPT to_ascii vectors (real tables)
IDNA_BASE_CASE = ("C06", "C16")
# URLPattern top level on the repository's WPT corpus, incl. shortcut-vs-regexp differential through the ADA_URL_ADA_VERIF hook
URLPATTERN_BASE_CASE = ("C14", "C15")
# url_search_params::sort beyond the 16-element bound of the solver obligation (libstdc++ switches algorithm there)
SORT_BASE_CASE = ("C12",)
# list-of-pairs model over histories, C++ object and C API handle in lock-step (harness/sp_model.cpp)
SP_MODEL_BASE_CASE = ("C12", "C17")
# the same sweep under limits around the sizes involved (C09: setters under a limit)
SETTER_LIMIT_BASE_CASE = ("C09",)

COMMON_ASSUMPTIONS = [
    "clang-14 -O1 IR of /repo's src/ada.cpp (single translation unit, -fno-exceptions, -fno-access-control) is the code under test; "
    "ll2c (own LLVM-IR -> C translator) and CBMC 6.11 are trusted, cross-checked by native replay of every counterexample "
    "and by translation validation of the generated C against the object code of the same IR",
    "allocation never fails (operator new model assumes a non-null result); allocation failure is outside every claim",
    "std::string objects stay within libstdc++'s 15-byte SSO buffer in string-building queries (a path that would allocate "
    "makes the query undecided, never passed) unless an obligation says otherwise",
    "memcpy/memmove of non-constant length are modelled by loops bounded by LL2C_MAXCPY=32 bytes (larger => undecided)",
    "every length listed in an obligation is a separate query with a CONCRETE length and symbolic contents; nothing is claimed for longer inputs",
]


def assumptions_for(pid):
    extra = {
        "C10": ["parse_ipv4 is checked under its caller's precondition: lower-case ASCII without forbidden domain code points and "
                "'ends in a number' (what parse_host establishes before calling it)"],
        "C11": ["'decoding inverts encoding' is read as decode(encode_S(x)) == x for the form-urlencoded set on all x, and for "
                "the URL sets on x without '%' (a set that does not escape '%' cannot be inverted on \"%41\")"],
        "C18": ["the three ISA builds are compared kernel by kernel in ONE formula; whole-library digests are not computed"],
    }
    return COMMON_ASSUMPTIONS + extra.get(pid, [])


# ------------------------------------------------------------------------------------------------ translation validation
def translation_validation(eng, obls):
    import tv
    return tv.run(eng, obls)
