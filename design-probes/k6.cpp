#include "ada.h"
#include "../../repo/src/ada.cpp"
// serialize -> parse round trip on the ada::url copy of the IPv6 parser
extern "C" __attribute__((noinline)) int vk_ipv6_roundtrip(const uint16_t* a, uint16_t* back, char* text, size_t* tn) {
  std::array<uint16_t, 8> addr; for (int i = 0; i < 8; i++) addr[i] = a[i];
  std::string s = ada::serializers::ipv6(addr);
  *tn = s.size(); memcpy(text, s.data(), s.size());
  ada::url u;
  bool ok = u.parse_ipv6(std::string_view(s.data() + 1, s.size() - 2));
  if (!ok) return 0;
  // re-serialised host must be identical text
  if (*u.host != s) return 2;
  return 1;
}
extern "C" __attribute__((noinline)) int vk_ipv6_parse(const char* p, size_t n, char* text, size_t* tn) {
  ada::url u;
  bool ok = u.parse_ipv6(std::string_view(p, n));
  if (!ok) return 0;
  *tn = u.host->size(); memcpy(text, u.host->data(), u.host->size());
  return 1;
}
