#include "k3_sse2.c"
#include "k3_ssse3.c"
#include <assert.h>
#ifndef NB
#define NB 20
#endif
size_t nondet_size_t(void);
static size_t ref(const uint8_t* s, size_t n, size_t loc, int special) {
  for (size_t i = loc; i < n; i++) { uint8_t c = s[i]; if (c==':'||c=='/'||c=='?'||c=='['||(special&&c=='\\')) return i; }
  return n;
}
void harness(void) {
  size_t n = NB;   /* concrete length per run, contents symbolic, exact-size object */
  size_t loc = nondet_size_t(); __CPROVER_assume(loc <= n);
  uint8_t buf[NB ? NB : 1];
  size_t e1 = ref(buf, n, loc, 1), e0 = ref(buf, n, loc, 0);
#if WHICH==0
  assert(F_vk_find_special(buf, n, loc) == e1);
  assert(F_vk_find(buf, n, loc) == e0);
#else
  assert(S3_vk_find_special(buf, n, loc) == e1);
  assert(S3_vk_find(buf, n, loc) == e0);
#endif
}
