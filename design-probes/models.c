uint8_t* X__Znwm(uint64_t n) { uint8_t* p = malloc(n); __CPROVER_assume(p != 0); return p; }
void X__ZdlPv(uint8_t* p) { free(p); }
uint8_t* X__Znam(uint64_t n) { uint8_t* p = malloc(n); __CPROVER_assume(p != 0); return p; }
void X__ZdaPv(uint8_t* p) { free(p); }
