#include "k4.c"
#include <assert.h>
_Bool nondet_bool(void);
static uint8_t table_store[224608];
static int allocs = 0;
uint8_t* X__ZnamRKSt9nothrow_t(uint64_t n, uint8_t* t) { (void)t; (void)n; __CPROVER_atomic_begin(); allocs++; __CPROVER_atomic_end(); return table_store; }
void X__ZdaPv(uint8_t* p) { (void)p; }
uint64_t X__ZN3ada4idna7deflate11inflate_rawEPKhmPhm(uint8_t* a0, uint64_t a1, uint8_t* a2, uint64_t a3) { return 224608; }
uint32_t X__ZN3ada4idna10crc32_ieeeEPKhm(uint8_t* a0, uint64_t a1) { return 0x6F4A6B2Eu; }
void X__ZN3ada4idna6detail33convert_table_blob_to_host_endianEPh(uint8_t* a0) {}
int done1 = 0, done2 = 0, r1, r2;
uint8_t *s1a, *dva, *tba, *s1b, *dvb, *tbb;
void t1(void) { r1 = F_vk_ensure((uint8_t*)&s1a, (uint8_t*)&dva, (uint8_t*)&tba); done1 = 1; }
void t2(void) { r2 = F_vk_ensure((uint8_t*)&s1b, (uint8_t*)&dvb, (uint8_t*)&tbb); done2 = 1; }
void harness(void) {
  ll2c_init_globals();
  __CPROVER_ASYNC_1: t1();
  __CPROVER_ASYNC_2: t2();
  __CPROVER_assume(done1 && done2);
#ifdef WITNESS
  assert(0);
#else
  assert(allocs == 1);
  assert(!r1 || (s1a == table_store && dva == table_store + 220836 && tba == table_store));
  assert(!r2 || (s1b == table_store && dvb == table_store + 220836 && tbb == table_store));
  assert(r1 && r2);  /* within spin bound both succeed */
#endif
}
