#include "ada.h"
#include "../../repo/src/ada.cpp"
extern "C" __attribute__((noinline)) size_t vk_find_special(const char* p, size_t n, size_t loc) {
  return ada::helpers::find_next_host_delimiter_special(std::string_view(p, n), loc);
}
extern "C" __attribute__((noinline)) size_t vk_find(const char* p, size_t n, size_t loc) {
  return ada::helpers::find_next_host_delimiter(std::string_view(p, n), loc);
}
extern "C" __attribute__((noinline)) int vk_tabs(const char* p, size_t n) {
  return ada::unicode::has_tabs_or_newline(std::string_view(p, n));
}
