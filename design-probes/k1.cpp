#include "ada.h"
#include "../../repo/src/ada.cpp"
extern "C" __attribute__((noinline)) uint64_t vk_ipv4_fast(const char* p, size_t n) {
  return ada::checkers::try_parse_ipv4_fast(std::string_view(p, n));
}
extern "C" __attribute__((noinline)) int vk_is_ipv4(const char* p, size_t n) {
  return ada::checkers::is_ipv4(std::string_view(p, n));
}
extern "C" __attribute__((noinline)) uint8_t vk_path_signature(const char* p, size_t n) {
  return ada::checkers::path_signature(std::string_view(p, n));
}
