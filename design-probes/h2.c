#include "k1.c"
#include "k1_avx_r.c"
#include <assert.h>
size_t nondet_size_t(void);
void harness(void) {
  size_t n = nondet_size_t();
  __CPROVER_assume(n <= 17);
  uint8_t* buf = malloc(n);
  __CPROVER_assume(buf != 0);
  uint64_t r = F_vk_ipv4_fast(buf, n);
  uint64_t a = AVX_vk_ipv4_fast(buf, n);
  assert(r == a);
}
