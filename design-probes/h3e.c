#include "k2.c"
#include "models.c"
#include <assert.h>
typedef struct { uint32_t c[8]; uint8_t type, opaque, host_type, valid; } vk_state;
void harness(void) {
  ll2c_init_globals();
  enum { n = 14 };
  uint8_t buf[n];
  vk_state s = { {3, 6, 8, 10, 0xffffffffu, 10, 12, 0xffffffffu}, 0, 0, 0, 1 };
  int v = F_vk_validate(buf, n, (uint8_t*)&s);
  assert(v == 0 || (buf[2]==':' && buf[8]=='@' && buf[12]=='?'));
}
