uint8_t* X_memchr(uint8_t* s, uint32_t c, uint64_t n) { for (uint64_t i = 0; i < n; i++) if (s[i] == (uint8_t)c) return s + i; return 0; }
uint32_t X_memcmp(uint8_t* a, uint8_t* b, uint64_t n) { for (uint64_t i = 0; i < n; i++) if (a[i] != b[i]) return a[i] < b[i] ? (uint32_t)-1 : 1; return 0; }
uint32_t X_bcmp(uint8_t* a, uint8_t* b, uint64_t n) { return X_memcmp(a, b, n); }
uint64_t X_strlen(uint8_t* s) { uint64_t n = 0; while (s[n]) n++; return n; }
void X_abort(void) { __CPROVER_assert(0, "abort"); __CPROVER_assume(0); }
void X___cxa_pure_virtual(void) { __CPROVER_assert(0, "pure virtual"); __CPROVER_assume(0); }
