#include "ada.h"
#include "../../repo/src/ada.cpp"
#include <cstdio>
int main() {
  for (const char* s : {"http://252.238.19.1606/", "http://10..2.3/", "http://1.2.3.4/"}) {
    auto a = ada::parse<ada::url_aggregator>(s); auto u = ada::parse<ada::url>(s);
    printf("%-28s agg=%s url=%s can_parse=%d\n", s, a ? std::string(a->get_href()).c_str() : "FAIL", u ? u->get_href().c_str() : "FAIL", ada::can_parse(s));
  }
}
