#include "k2.c"
#include "models.c"
#include <assert.h>
#ifndef NB
#define NB 12
#endif
#ifndef MB
#define MB 3
#endif
size_t nondet_size_t(void);
typedef struct { uint32_t c[8]; uint8_t type, opaque, host_type, valid; } vk_state;
void harness(void) {
  ll2c_init_globals();
  size_t n = nondet_size_t(); __CPROVER_assume(n <= NB);
  size_t m = nondet_size_t(); __CPROVER_assume(m <= MB);
  uint8_t buf[NB]; uint8_t in[MB]; uint8_t out[NB+MB+4];
  vk_state s, so; int pv = 0;
  __CPROVER_assume(s.type <= 6 && s.type != 1); __CPROVER_assume(s.opaque <= 1);
  for (int i = 0; i < 8; i++) __CPROVER_assume(s.c[i] <= NB || (i == 4 && s.c[i] <= 0xffff) || ((i == 4 || i >= 6) && s.c[i] == 0xffffffffu));
  __CPROVER_assume(F_vk_validate(buf, n, (uint8_t*)&s) == 1);
  /* stronger invariant pieces (harness-supplied): authority present */
  __CPROVER_assume(s.c[0] + 2 <= s.c[2] && buf[s.c[0]] == '/' && buf[s.c[0]+1] == '/');
  __CPROVER_assume(s.c[6] == 0xffffffffu || s.c[6] < n); __CPROVER_assume(s.c[7] == 0xffffffffu || s.c[7] < n);
  __CPROVER_assume(s.c[1] >= s.c[0] + 2);
  __CPROVER_assume(s.c[3] >= s.c[2]);
#ifdef OP_CLEAR_PORT
  size_t on = F_vk_clear_port(buf, n, (uint8_t*)&s, out, sizeof out, (uint8_t*)&so, (uint8_t*)&pv);
#else
  size_t on = F_vk_update_base_username(buf, n, (uint8_t*)&s, in, m, out, sizeof out, (uint8_t*)&so, (uint8_t*)&pv);
#endif
#ifdef WITNESS
  assert(0);
#else
  assert(pv == 1);
#endif
}
