#include "k5.c"
#include "models.c"
#include "models2.c"
#include <assert.h>
_Bool nondet_bool(void);
uint8_t X__ZN3ada7unicode8to_asciiERSt8optionalINSt7__cxx1112basic_stringIcSt11char_traitsIcESaIcEEEESt17basic_string_viewIcS5_Em(uint8_t* a0, uint64_t a1, uint8_t* a2, uint64_t a3) { return 0; /* cut: IDNA path = failure */ }
#ifndef NB
#define NB 3
#endif
void harness(void) {
  ll2c_init_globals();
  uint8_t in[NB ? NB : 1]; uint8_t out[NB*3+8]; size_t on = 0; uint32_t comps[8];
  int r = F_vk_parse_agg(in, NB, out, sizeof out, (uint8_t*)&on, (uint8_t*)comps);
#ifdef WITNESS
  if (r == 1) assert(0);
#else
  assert(r != 2);            /* validate() holds on every successful parse */
  if (r == 1) assert(on <= 3*NB + 8);
#endif
}
