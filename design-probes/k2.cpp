#include "ada.h"
#include "../../repo/src/ada.cpp"
struct vk_state { uint32_t c[8]; uint8_t type; uint8_t opaque; uint8_t host_type; uint8_t valid; };
static inline void load(ada::url_aggregator& u, const char* buf, size_t n, const vk_state* s) {
  u.buffer.assign(buf, n);
  u.components.protocol_end = s->c[0]; u.components.username_end = s->c[1]; u.components.host_start = s->c[2];
  u.components.host_end = s->c[3]; u.components.port = s->c[4]; u.components.pathname_start = s->c[5];
  u.components.search_start = s->c[6]; u.components.hash_start = s->c[7];
  u.type = ada::scheme::type(s->type); u.has_opaque_path = s->opaque; u.is_valid = true;
}
static inline size_t save(const ada::url_aggregator& u, char* out, size_t cap, vk_state* s) {
  size_t n = u.buffer.size(); if (n > cap) n = cap;
  memcpy(out, u.buffer.data(), n);
  s->c[0] = u.components.protocol_end; s->c[1] = u.components.username_end; s->c[2] = u.components.host_start;
  s->c[3] = u.components.host_end; s->c[4] = u.components.port; s->c[5] = u.components.pathname_start;
  s->c[6] = u.components.search_start; s->c[7] = u.components.hash_start;
  s->type = u.type; s->opaque = u.has_opaque_path; s->valid = u.is_valid;
  return u.buffer.size();
}
extern "C" __attribute__((noinline)) int vk_validate(const char* buf, size_t n, const vk_state* s) {
  ada::url_aggregator u; load(u, buf, n, s); return u.validate();
}
extern "C" __attribute__((noinline)) size_t vk_update_base_username(const char* buf, size_t n, const vk_state* s, const char* in, size_t m, char* out, size_t cap, vk_state* so, int* post_valid) {
  ada::url_aggregator u; load(u, buf, n, s);
  u.update_base_username(std::string_view(in, m));
  *post_valid = u.validate();
  return save(u, out, cap, so);
}
extern "C" __attribute__((noinline)) size_t vk_clear_port(const char* buf, size_t n, const vk_state* s, char* out, size_t cap, vk_state* so, int* post_valid) {
  ada::url_aggregator u; load(u, buf, n, s);
  u.clear_port();
  *post_valid = u.validate();
  return save(u, out, cap, so);
}
