#include "k6.c"
#include "models.c"
#include "models2.c"
#include <assert.h>
void harness(void) {
  ll2c_init_globals();
  uint16_t a[8]; uint16_t back[8]; uint8_t text[48]; size_t tn = 0;
  int r = F_vk_ipv6_roundtrip((uint8_t*)a, (uint8_t*)back, text, (uint8_t*)&tn);
#ifdef WITNESS
  if (r == 1 && tn == 4) assert(0);
#else
  assert(r == 1);
#endif
}
