#include "k2.c"
#include "models.c"
#include <assert.h>
typedef struct { uint32_t c[8]; uint8_t type, opaque, host_type, valid; } vk_state;
/* concrete layout "ab://u:p@h/x?q" (n=14), symbolic bytes constrained only at delimiters */
void harness(void) {
  ll2c_init_globals();
  enum { n = 14, m = 2 };
  uint8_t buf[n]; uint8_t in[m]; uint8_t out[n+m+4];
  vk_state s = { {3, 6, 8, 10, 0xffffffffu, 10, 12, 0xffffffffu}, 0, 0, 0, 1 }, so; int pv = 0;
  __CPROVER_assume(s.type <= 6 && s.type != 1);
  __CPROVER_assume(buf[2]==':' && buf[3]=='/' && buf[4]=='/' && buf[6]==':' && buf[8]=='@' && buf[10]=='/' && buf[12]=='?');
  __CPROVER_assume(F_vk_validate(buf, n, (uint8_t*)&s) == 1);
  size_t on = F_vk_update_base_username(buf, n, (uint8_t*)&s, in, m, out, sizeof out, (uint8_t*)&so, (uint8_t*)&pv);
#ifdef WITNESS
  assert(0);
#else
  assert(pv == 1);
  assert(on == n + m - 1);
  assert(so.c[1] == 5 + m && so.c[2] == 7 + m && so.c[3] == 9 + m && so.c[5] == 9 + m && so.c[6] == 11 + m);
  assert(out[5] == in[0] && out[6] == in[1] && out[7] == ':' && out[8] == buf[7] && out[9] == '@');
#endif
}
