#include "k1.c"
#include <assert.h>
size_t nondet_size_t(void);
/* reference: WHATWG IPv4 parser restricted to what the fast path may accept:
   returns address or 1<<32 when not (a valid ipv4 whose every part is pure decimal w/o leading zero, 4 parts, each <=255, optional one trailing dot) */
static uint64_t ref(const uint8_t* s, size_t n) {
  if (n > 0 && s[n-1]=='.') n--;
  uint64_t addr = 0; size_t i = 0;
  for (int part = 0; part < 4; part++) {
    if (i >= n) return 1ULL<<32;
    size_t start = i; uint32_t v = 0;
    while (i < n && s[i] >= '0' && s[i] <= '9') { v = v*10 + (s[i]-'0'); i++; if (i - start > 3) return 1ULL<<32; }
    if (i == start) return 1ULL<<32;
    if (i - start > 1 && s[start]=='0') return 1ULL<<32; /* leading zero => octal, not 'pure decimal' */
    if (v > 255) return 1ULL<<32;
    addr = (addr<<8)|v;
    if (part < 3) { if (i >= n || s[i] != '.') return 1ULL<<32; i++; }
  }
  if (i != n) return 1ULL<<32;
  return addr;
}
void harness(void) {
  uint8_t buf[16];
  size_t n = nondet_size_t();
  __CPROVER_assume(n <= 16);
  uint64_t r = F_vk_ipv4_fast(buf, n);
  uint64_t e = ref(buf, n);
#ifdef WITNESS
  if (r < (1ULL<<32)) assert(0);
#else
  assert(r == e);
#endif
}
