#ifndef LL2C_RT_H
#define LL2C_RT_H
#include <stdint.h>
#include <stddef.h>
#include <string.h>
#include <stdlib.h>
#ifndef __CPROVER__
#include <stdio.h>
#define __CPROVER_assert(c, m) do { if (!(c)) { fprintf(stderr, "ASSERT FAIL: %s\n", m); abort(); } } while (0)
#define __CPROVER_assume(c) do { if (!(c)) { fprintf(stderr, "ASSUME FAIL\n"); exit(3); } } while (0)
#define __CPROVER_atomic_begin()
#define __CPROVER_atomic_end()
#endif
#if defined(__CPROVER__) && defined(LL2C_MAXCPY)
static inline void ll2c_memcpy(uint8_t* d, const uint8_t* s, uint64_t n) { __CPROVER_assert(n <= LL2C_MAXCPY, "copy within modelled bound"); for (uint64_t i = 0; i < n; i++) d[i] = s[i]; }
static inline void ll2c_memmove(uint8_t* d, const uint8_t* s, uint64_t n) { uint8_t t[LL2C_MAXCPY]; __CPROVER_assert(n <= LL2C_MAXCPY, "copy within modelled bound"); for (uint64_t i = 0; i < n; i++) t[i] = s[i]; for (uint64_t i = 0; i < n; i++) d[i] = t[i]; }
static inline void ll2c_memset(uint8_t* d, uint8_t c, uint64_t n) { __CPROVER_assert(n <= LL2C_MAXCPY, "set within modelled bound"); for (uint64_t i = 0; i < n; i++) d[i] = c; }
#else
static inline void ll2c_memcpy(uint8_t* d, const uint8_t* s, uint64_t n) { memcpy(d, s, n); }
static inline void ll2c_memmove(uint8_t* d, const uint8_t* s, uint64_t n) { memmove(d, s, n); }
static inline void ll2c_memset(uint8_t* d, uint8_t c, uint64_t n) { memset(d, c, n); }
#endif
static inline void ll2c_unreachable(void) { __CPROVER_assert(0, "llvm unreachable executed"); __CPROVER_assume(0); }
static inline void ll2c_noreturn(const char* what) { (void)what; __CPROVER_assert(0, "noreturn call (throw/abort) reached"); __CPROVER_assume(0); }
static inline uint64_t ll2c_ctlz(uint64_t v, unsigned bits) { if (v == 0) return bits; unsigned n = 0; uint64_t x = v; if (!(x >> 32)) { n += 32; x <<= 32; } if (!(x >> 48)) { n += 16; x <<= 16; } if (!(x >> 56)) { n += 8; x <<= 8; } if (!(x >> 60)) { n += 4; x <<= 4; } if (!(x >> 62)) { n += 2; x <<= 2; } if (!(x >> 63)) { n += 1; } return n - (64 - bits); }
static inline uint64_t ll2c_cttz(uint64_t v, unsigned bits) { if (v == 0) return bits; unsigned n = 0; uint64_t x = v; if (!(x & 0xffffffffULL)) { n += 32; x >>= 32; } if (!(x & 0xffff)) { n += 16; x >>= 16; } if (!(x & 0xff)) { n += 8; x >>= 8; } if (!(x & 0xf)) { n += 4; x >>= 4; } if (!(x & 3)) { n += 2; x >>= 2; } if (!(x & 1)) { n += 1; } return n; }
static inline uint64_t ll2c_ctpop(uint64_t v, unsigned bits) { (void)bits; v = v - ((v >> 1) & 0x5555555555555555ULL); v = (v & 0x3333333333333333ULL) + ((v >> 2) & 0x3333333333333333ULL); v = (v + (v >> 4)) & 0x0f0f0f0f0f0f0f0fULL; return (v * 0x0101010101010101ULL) >> 56; }
static inline uint64_t ll2c_bswap(uint64_t v, unsigned bits) { uint64_t r = 0; for (unsigned i = 0; i < bits / 8; i++) r |= ((v >> (8 * i)) & 0xff) << (bits - 8 - 8 * i); return r; }
void ll2c_init_globals(void);
#endif
