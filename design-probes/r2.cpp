#include "ada.h"
#include "../../repo/src/ada.cpp"
#include <cstdio>
template <class T> void t() {
  auto a = ada::parse<T>("http://1.2.3.4/"); printf("before: host_type=%d\n", (int)a->host_type);
  bool ok = a->set_host("example.com"); printf("set_host ok=%d href=%s host_type=%d\n", ok, std::string(a->get_href()).c_str(), (int)a->host_type);
  auto b = ada::parse<T>("http://[::1]/"); b->set_hostname("example.org"); printf("ipv6->domain host_type=%d href=%s\n", (int)b->host_type, std::string(b->get_href()).c_str());
  auto base = ada::parse<T>("http://1.2.3.4/a"); auto r = ada::parse<T>("b", &*base); printf("inherited: host_type=%d href=%s\n", (int)r->host_type, std::string(r->get_href()).c_str());
  auto f = ada::parse<T>("http://1.2.3.4/"); f->set_href("http://example.com/"); printf("set_href host_type=%d\n", (int)f->host_type);
}
int main() { t<ada::url_aggregator>(); t<ada::url>(); }
