#include "ada.h"
#include "../../repo/src/ada.cpp"
extern "C" __attribute__((noinline)) int vk_ensure(const uint16_t** s1, const uint8_t** dv, const uint8_t** tb) {
  bool ok = ada::idna::ensure_tables();
  *s1 = ada::idna::idna_stage1; *dv = ada::idna::dir_value; *tb = ada::idna::tables_buffer;
  return ok;
}
