#include "k3_sse2.c"
#include "k3_ssse3.c"
#include <assert.h>
#ifndef NB
#define NB 40
#endif
size_t nondet_size_t(void);
static size_t ref(const uint8_t* s, size_t n, size_t loc, int special) {
  for (size_t i = loc; i < n; i++) { uint8_t c = s[i]; if (c==':'||c=='/'||c=='?'||c=='['||(special&&c=='\\')) return i; }
  return n;
}
void harness(void) {
  size_t n = nondet_size_t(); __CPROVER_assume(n <= NB);
  size_t loc = nondet_size_t(); __CPROVER_assume(loc <= n);
  uint8_t* buf = malloc(n); __CPROVER_assume(buf != 0);
  size_t e1 = ref(buf, n, loc, 1), e0 = ref(buf, n, loc, 0);
  assert(F_vk_find_special(buf, n, loc) == e1);
  assert(S3_vk_find_special(buf, n, loc) == e1);
  assert(F_vk_find(buf, n, loc) == e0);
  assert(S3_vk_find(buf, n, loc) == e0);
  int t = 0; for (size_t i = 0; i < n; i++) if (buf[i]=='\t'||buf[i]=='\n'||buf[i]=='\r') t = 1;
  assert((F_vk_tabs(buf, n) != 0) == t);
  assert((S3_vk_tabs(buf, n) != 0) == t);
}
