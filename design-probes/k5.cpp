#include "ada.h"
#include "../../repo/src/ada.cpp"
extern "C" __attribute__((noinline)) int vk_parse_agg(const char* p, size_t n, char* out, size_t cap, size_t* outn, uint32_t* comps) {
  ada::url_aggregator u = ada::parser::parse_url_impl<ada::url_aggregator, true>(std::string_view(p, n), nullptr);
  if (!u.is_valid) return 0;
  size_t k = u.buffer.size(); *outn = k; if (k > cap) k = cap;
  memcpy(out, u.buffer.data(), k);
  comps[0] = u.components.protocol_end; comps[1] = u.components.username_end; comps[2] = u.components.host_start; comps[3] = u.components.host_end;
  comps[4] = u.components.port; comps[5] = u.components.pathname_start; comps[6] = u.components.search_start; comps[7] = u.components.hash_start;
  return u.validate() ? 1 : 2;
}
