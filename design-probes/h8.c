#include "k6.c"
#include "models.c"
#include "models2.c"
#include <assert.h>
#ifndef NB
#define NB 12
#endif
void harness(void) {
  ll2c_init_globals();
  uint8_t in[NB]; uint8_t text[48]; size_t tn = 0;
  int r = F_vk_ipv6_parse(in, NB, text, (uint8_t*)&tn);
#ifdef WITNESS
  if (r == 1) assert(0);
#else
  if (r == 1) { assert(tn >= 4 && tn <= 41); assert(text[0] == '[' && text[tn-1] == ']'); }
#endif
}
