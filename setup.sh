#!/bin/sh
# builds the IR->C translator from source with the LLVM-14 development files that are installed in the image
set -e
cd "$(dirname "$0")"
mkdir -p build evidence replays
clang++-14 -O1 $(llvm-config-14 --cxxflags) -fexceptions -Wno-everything ll2c/ll2c.cpp -o build/ll2c $(llvm-config-14 --ldflags) -lLLVM-14
echo "ll2c built"
