/* string_model.c — functional model of libstdc++'s out-of-line std::string::_M_replace (the work-horse behind
 * insert / replace / assign), used instead of translating its body.  Everything else of std::string that the
 * compiler inlined into ada's code (append / push_back / erase fast paths, size / data / capacity bookkeeping)
 * is still the real libstdc++ code.  Same object layout: { char* p; size_t size; union { char buf[16]; size_t cap; } }.
 *
 * Why: the real _M_replace moves the tail with memmove at a symbolic offset inside the enclosing object; CBMC
 * turns each such byte into a byte_update of the whole enclosing object (measured: 207 k SSA steps / 10 M SAT
 * variables for one url_aggregator::update_base_username).  The model computes every byte of the result as a
 * function of the old bytes (writes at CONSTANT indices, reads through a small multiplexer).
 *
 * Validated on every run by translation validation: the generated C linked with this model is run natively
 * against the object code of the real libstdc++ implementation on the repository's corpora.
 * Bound: results longer than the current capacity (15 bytes in SSO mode) => "MODEL:" assertion => the query is
 * undecided, never passed. */
#ifndef VK_STR_MAX
#define VK_STR_MAX 16
#endif
uint8_t* X__ZNSt7__cxx1112basic_stringIcSt11char_traitsIcESaIcEE10_M_replaceEmmPKcm(uint8_t* self, uint64_t pos, uint64_t len1, uint8_t* s, uint64_t len2) {
  uint8_t* p = *(uint8_t**)self;
  uint64_t size = *(uint64_t*)(self + 8);
  uint64_t cap = (p == self + 16) ? 15 : *(uint64_t*)(self + 16);
  /* callers (insert/replace/erase/assign) have already clamped: pos <= size, len1 <= size - pos */
  __CPROVER_assert(pos <= size && len1 <= size - pos, "MODEL: _M_replace called within the string");
  uint64_t new_size = size - len1 + len2;
  __CPROVER_assert(new_size <= cap && new_size < VK_STR_MAX && size < VK_STR_MAX, "MODEL: string result longer than the modelled capacity (SSO bound)");
  __CPROVER_assume(new_size <= cap && new_size < VK_STR_MAX && size < VK_STR_MAX);
  uint8_t src[VK_STR_MAX], old[VK_STR_MAX];
  for (unsigned k = 0; k < VK_STR_MAX; k++) { src[k] = 0; old[k] = 0; }
  for (unsigned k = 0; k < VK_STR_MAX; k++) { if (k < len2) src[k] = s[k]; if (k < size) old[k] = p[k]; }   /* s may alias the string */
  for (unsigned i = 0; i < VK_STR_MAX; i++) {
    if (i < new_size) {
      uint8_t v;
      if (i < pos) v = old[i];
      else if (i < pos + len2) v = src[(i - pos) % VK_STR_MAX];
      else v = old[(i - len2 + len1) % VK_STR_MAX];
      p[i] = v;
    }
  }
  p[new_size] = 0;
  *(uint64_t*)(self + 8) = new_size;
  return self;
}

/* _M_mutate is libstdc++'s "reallocate and splice" slow path: it always allocates.  In the SSO-only model a call
 * means the result would not fit the 15-byte buffer => query undecided (bound exceeded), path cut. */
void X__ZNSt7__cxx1112basic_stringIcSt11char_traitsIcESaIcEE9_M_mutateEmmPKcm(uint8_t* self, uint64_t pos, uint64_t len1, uint8_t* s, uint64_t len2) {
  (void)self; (void)pos; (void)len1; (void)s; (void)len2;
  __CPROVER_assert(0, "MODEL: string growth beyond the SSO capacity (_M_mutate)");
  __CPROVER_assume(0);
}

#ifdef VK_STUB_TO_ASCII
/* ada::unicode::to_ascii (percent-decode + IDNA): hosts that need it are OUTSIDE the host-setter queries; the path is
 * cut silently (the evidence lists this cut).  Hosts that are lower-case ASCII without forbidden code points, '%' or
 * "xn-" never reach it (parse_host's fast path). */
uint8_t X__ZN3ada7unicode8to_asciiERSt8optionalINSt7__cxx1112basic_stringIcSt11char_traitsIcESaIcEEEESt17basic_string_viewIcS5_Em(uint8_t* out, uint64_t len, uint8_t* data, uint64_t first_percent) {
  (void)out; (void)len; (void)data; (void)first_percent;
  __CPROVER_assume(0);
  return 0;
}
#endif
