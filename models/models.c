/* models.c — the only external functions the translated code may call.
 * Each is a straightforward executable model (valid both for CBMC and native runs). */
#ifndef VERIF_MODELS_C
#define VERIF_MODELS_C
/* Heap blocks have a CONSTANT size VK_MAX_ALLOC under CBMC (a dynamic object of symbolic size drags
 * the array theory into the formula and CBMC's post-processing does not finish); a request larger
 * than that makes the query "undecided", never a pass.  Consequence, stated in the evidence: an
 * over-read inside a heap block but beyond the requested size is not detected. */
#ifndef VK_MAX_ALLOC
#define VK_MAX_ALLOC 64
#endif
#ifdef __CPROVER__
#define VK_ALLOC(n) malloc(VK_MAX_ALLOC)
#else
#define VK_ALLOC(n) malloc((n) > VK_MAX_ALLOC ? (n) : VK_MAX_ALLOC)
#endif
/* operator new / delete: allocation never fails (allocation failure is outside every claim). */
/* ghost: number of blocks obtained from operator new / new[] and not yet given to delete (leak / double-free checks) */
static int vk_live_blocks = 0;
#ifdef VK_NO_HEAP
/* SSO-only string model: every std::string in the query stays within its 15-byte local buffer; a
 * path that would allocate makes the query "undecided" (bound exceeded), never a pass. */
uint8_t* X__Znwm(uint64_t n) { (void)n; __CPROVER_assert(0, "MODEL: heap allocation (string longer than the 15-byte SSO bound)"); __CPROVER_assume(0); return 0; }
#else
uint8_t* X__Znwm(uint64_t n) { __CPROVER_assert(n <= VK_MAX_ALLOC, "MODEL: allocation size within modelled bound"); uint8_t* p = VK_ALLOC(n); __CPROVER_assume(p != 0); return p; }
#endif
void X__ZdlPv(uint8_t* p) { if (p) vk_live_blocks--; free(p); }
void X__ZdlPvm(uint8_t* p, uint64_t n) { (void)n; if (p) vk_live_blocks--; free(p); }
uint8_t* X__Znam(uint64_t n) { __CPROVER_assert(n <= VK_MAX_ALLOC, "MODEL: allocation size within modelled bound"); uint8_t* p = VK_ALLOC(n); __CPROVER_assume(p != 0); vk_live_blocks++; return p; }
void X__ZdaPv(uint8_t* p) { if (p) vk_live_blocks--; free(p); }
#ifndef VK_OWN_NOTHROW_NEW
uint8_t* X__ZnamRKSt9nothrow_t(uint64_t n, uint8_t* nt) { (void)nt; return X__Znam(n); }
uint8_t* X__ZnwmRKSt9nothrow_t(uint64_t n, uint8_t* nt) { (void)nt; return X__Znwm(n); }
#endif
uint8_t* X_memchr(uint8_t* s, uint32_t c, uint64_t n) { for (uint64_t i = 0; i < n; i++) if (s[i] == (uint8_t)c) return s + i; return 0; }
uint32_t X_memcmp(uint8_t* a, uint8_t* b, uint64_t n) { for (uint64_t i = 0; i < n; i++) if (a[i] != b[i]) return a[i] < b[i] ? (uint32_t)-1 : 1; return 0; }
uint32_t X_bcmp(uint8_t* a, uint8_t* b, uint64_t n) { for (uint64_t i = 0; i < n; i++) if (a[i] != b[i]) return 1; return 0; }
uint64_t X_strlen(uint8_t* s) { uint64_t n = 0; while (s[n]) n++; return n; }
void X_abort(void) { __CPROVER_assert(0, "NORETURN: abort"); __CPROVER_assume(0); }
void X___cxa_pure_virtual(void) { __CPROVER_assert(0, "NORETURN: pure virtual"); __CPROVER_assume(0); }
#endif
#ifndef __CPROVER__
#ifndef VERIF_MODELS_NOTHROW
#define VERIF_MODELS_NOTHROW
uint8_t G__ZSt7nothrow[1]; /* std::nothrow (an external global of libstdc++) for native builds of generated code */
#endif
#endif
