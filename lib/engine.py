"""engine.py — build -> translate -> (validate) -> solve -> replay -> evidence.

Everything is regenerated from /repo's current working tree on every run:
  shim/vk.cpp (#include "ada.cpp")  --clang++-14 -O1 -S -emit-llvm-->  vk.<cfg>.ll
  vk.<cfg>.ll  --ll2c roots-->  unit C  --CBMC + harness-->  verdict
A failing obligation is replayed natively against the object code built from the same IR.
"""
import json, os, re, shutil, subprocess, sys, tempfile, threading, time, hashlib, resource
from concurrent.futures import ThreadPoolExecutor, as_completed

VERIF = os.path.dirname(os.path.dirname(os.path.abspath(__file__)))
REPO = os.environ.get("VERIF_REPO", "/repo")
LL2C = os.path.join(VERIF, "build", "ll2c")
CLANGXX = "clang++-14"
GCC = "gcc"

IR_FLAGS = ["-std=c++20", "-O1", "-fno-access-control", "-fno-exceptions", "-fno-vectorize",
            "-fno-slp-vectorize", "-fno-unroll-loops", "-DADA_URL_ADA_VERIF=1",
            "-S", "-emit-llvm", "-Wno-everything"]
# build configurations of the real library (C18)
CFG_FLAGS = {
    "default": [],
    "ssse3": ["-mssse3"],
    "avx512": ["-mavx512bw", "-mavx512vl"],
    "devchecks": ["-DADA_DEVELOPMENT_CHECKS=1"],
    "capi": ["-DVK_WITH_CAPI=1"],
    "amalgamated": ["-DVK_AMALGAMATED=1"],
    # url_aggregator::buffer is moved to a heap block (reserve) before the state is loaded, so that every
    # symbolic-offset access of the editors hits a flat byte array instead of the SSO bytes embedded in the object
    "reserve": ["-DVK_RESERVE=40"],
    # only always_inline functions are inlined: keeps crc32_ieee / inflate_raw out of line so that they can be stubbed
    "noinline": ["-mllvm", "-inline-threshold=0", "-mllvm", "-inlinehint-threshold=0", "-mllvm", "-inlinecold-threshold=0"],
}

STR_REPLACE = "_ZNSt7__cxx1112basic_stringIcSt11char_traitsIcESaIcEE10_M_replaceEmmPKcm"
STR_MUTATE = "_ZNSt7__cxx1112basic_stringIcSt11char_traitsIcESaIcEE9_M_mutateEmmPKcm"
STR_STUBS = [STR_REPLACE, STR_MUTATE]
TO_ASCII = "_ZN3ada7unicode8to_asciiERSt8optionalINSt7__cxx1112basic_stringIcSt11char_traitsIcESaIcEEEESt17basic_string_viewIcS5_Em"
CBMC_CHECKS = ["--bounds-check", "--pointer-check", "--div-by-zero-check", "--undefined-shift-check",
               "--signed-overflow-check"]


def log(*a):
    print(*a, file=sys.stderr, flush=True)


class Unit:
    """A set of root wrappers translated from one build configuration."""
    def __init__(self, cfg, roots, stubs=(), prefix="", check_flags=False, atomics_hook=False):
        self.cfg, self.roots, self.stubs, self.prefix = cfg, tuple(roots), tuple(stubs), prefix
        self.check_flags = check_flags
        self.atomics_hook = atomics_hook

    def key(self):
        h = hashlib.sha1(repr((self.cfg, self.roots, self.stubs, self.prefix, self.check_flags, self.atomics_hook)).encode()).hexdigest()[:10]
        return f"u_{self.cfg}_{self.prefix}{h}"


class Obl:
    """One proof obligation = one CBMC query (plus its reachability witness, in the same run)."""
    def __init__(self, name, harness, units, defs=None, unwind=8, unwindset=(), tiers=("quick", "thorough"),
                 timeout=None, mem_gb=6, backend=None, witness=True, extra_flags=(), props=(),
                 expect_known=None, note="", checks=True, replay=True, maxcpy=32, group=None, weight=1,
                 no_heap=True, helper_unwind=34, str_max=16, allow_vacuous=False, harness_unwind=None):
        self.name, self.harness, self.units = name, harness, list(units)
        self.defs = dict(defs or {})
        self.unwind, self.unwindset, self.tiers = unwind, tuple(unwindset), tiers
        self.timeout, self.mem_gb, self.backend = timeout, mem_gb, backend
        self.witness, self.extra_flags, self.props = witness, tuple(extra_flags), tuple(props)
        self.expect_known, self.note, self.checks, self.replay = expect_known, note, checks, replay
        self.maxcpy = maxcpy
        self.no_heap, self.helper_unwind, self.str_max = no_heap, helper_unwind, str_max
        self.allow_vacuous = allow_vacuous
        self.harness_unwind = harness_unwind
        self.group = group or name
        self.weight = weight


class Result:
    def __init__(self, obl):
        self.obl = obl
        self.status = "undecided"   # discharged | failed | undecided | vacuous | error
        self.detail = ""
        self.time_s = 0.0
        self.rss_kb = 0
        self.nprops = 0
        self.failed_props = []
        self.witness_ok = None
        self.witness_sample = None
        self.cex = None
        self.replay = None
        self.cmd = ""
        self.ub_notes = []
        self.builtin_only = False


class Engine:
    def __init__(self, tier="quick", jobs=None, keep=False, total_mem_gb=48):
        self.tier = tier
        self.jobs = jobs or int(os.environ.get("VERIF_JOBS", "16"))
        self.keep = keep
        self.work = tempfile.mkdtemp(prefix="verif_", dir=os.environ.get("VERIF_TMP", "/tmp"))
        self.lock = threading.Lock()
        self.ir = {}
        self.unitc = {}
        self.unitobj = {}
        self.mem_sem = MemSem(total_mem_gb)
        self.functions_encoded = set()
        self.tv_stats = {"programs": 0, "inputs": 0, "mismatches": 0}

    def close(self):
        if not self.keep:
            shutil.rmtree(self.work, ignore_errors=True)

    # ---------------------------------------------------------------- build
    def ensure_ll2c(self):
        src = os.path.join(VERIF, "ll2c", "ll2c.cpp")
        if os.path.exists(LL2C) and os.path.getmtime(LL2C) >= os.path.getmtime(src):
            return
        os.makedirs(os.path.dirname(LL2C), exist_ok=True)
        cxx = subprocess.check_output(["llvm-config-14", "--cxxflags"], text=True).split()
        ld = subprocess.check_output(["llvm-config-14", "--ldflags"], text=True).split()
        tmp = LL2C + ".tmp%d" % os.getpid()
        subprocess.check_call([CLANGXX, "-O1"] + cxx + ["-fexceptions", src, "-o", tmp] + ld + ["-lLLVM-14"])
        os.replace(tmp, LL2C)

    def compile_ir(self, cfg):
        with self.lock:
            if cfg in self.ir:
                ev = self.ir[cfg]
            else:
                ev = self.ir[cfg] = threading.Event()
                ev.owner = True
                ev.path = os.path.join(self.work, f"vk.{cfg}.ll")
                ev.err = None
                owner = True
                ev.started = False
        # first caller compiles
        with self.lock:
            mine = not ev.started
            ev.started = True
        if mine:
            flags = []
            for c in cfg.split("+"):
                flags += CFG_FLAGS[c]
            inc = ["-I" + os.path.join(REPO, "include"), "-I" + os.path.join(REPO, "src")]
            if "amalgamated" in cfg.split("+"):
                adir = os.path.join(self.work, "amalgamated")
                os.makedirs(adir, exist_ok=True)
                env = dict(os.environ, AMALGAMATE_OUTPUT_PATH=adir)
                r = subprocess.run([sys.executable, os.path.join(REPO, "singleheader", "amalgamate.py")],
                                   env=env, capture_output=True, text=True, cwd=self.work)
                if r.returncode != 0 or not os.path.exists(os.path.join(adir, "ada.cpp")):
                    ev.err = "amalgamate.py failed: " + (r.stderr or r.stdout)[-400:]
                inc = ["-I" + adir]
            if ev.err is None:
                cmd = [CLANGXX] + IR_FLAGS + flags + inc + [os.path.join(VERIF, "shim", "vk.cpp"), "-o", ev.path]
                t0 = time.time()
                r = subprocess.run(cmd, capture_output=True, text=True)
                if r.returncode != 0:
                    ev.err = "clang failed for cfg %s: %s" % (cfg, r.stderr[-1500:])
                else:
                    log(f"[ir] {cfg}: {time.time()-t0:.1f}s")
            ev.set()
        ev.wait()
        if ev.err:
            raise RuntimeError(ev.err)
        return ev.path

    def translate(self, unit):
        k = unit.key()
        with self.lock:
            ent = self.unitc.get(k)
            if ent is None:
                ent = self.unitc[k] = {"ev": threading.Event(), "started": False, "err": None,
                                       "path": os.path.join(self.work, k + ".c")}
            mine = not ent["started"]
            ent["started"] = True
        if mine:
            try:
                ll = self.compile_ir(unit.cfg)
                cmd = [LL2C, ll, ",".join(unit.roots)]
                if unit.stubs:
                    cmd += ["--stub", ",".join(unit.stubs)]
                if unit.prefix:
                    cmd += ["--prefix", unit.prefix]
                if unit.check_flags:
                    cmd += ["--check-flags"]
                if unit.atomics_hook:
                    cmd += ["--atomics-hook"]
                r = subprocess.run(cmd, capture_output=True, text=True)
                if r.returncode != 0:
                    ent["err"] = "ll2c failed (%s): %s" % (" ".join(cmd[2:4])[:200], r.stderr[-800:])
                else:
                    open(ent["path"], "w").write(r.stdout)
                    fns = re.findall(r"^\S.*?\b(\w*F_\w+)\(.*\);$", r.stdout, re.M)
                    with self.lock:
                        for f in fns:
                            self.functions_encoded.add(re.sub(r"^\w*?F_", "", f))
                    # native header: F_vk_x -> real vk_x
                    nh = []
                    for m in re.finditer(r"^(\S.*?)\b(\w*F_(vk_\w+))\((.*)\);$", r.stdout, re.M):
                        if m.group(3) in unit.roots:
                            nh.append(f"extern {m.group(1)} {unit.prefix}{m.group(3)}({m.group(4)});\n#define {m.group(2)} {unit.prefix}{m.group(3)}")
                    nh.append(f"static void {unit.prefix}ll2c_init_globals(void) {{}}")
                    nh.append("#define VK_REAL_CODE 1")
                    nh.append("extern uint64_t vk_set_limit(uint8_t*, uint64_t, uint8_t*, uint64_t, uint64_t, uint64_t);")
                    open(ent["path"][:-2] + "_native.h", "w").write("\n".join(nh) + "\n")
            except Exception as e:  # noqa
                ent["err"] = str(e)
            ent["ev"].set()
        ent["ev"].wait()
        if ent["err"]:
            raise RuntimeError(ent["err"])
        return ent["path"]

    def native_obj(self, unit):
        """object code of the REAL functions (from the same IR), symbols optionally prefixed."""
        k = "o_" + unit.cfg + "_" + unit.prefix
        with self.lock:
            ent = self.unitobj.get(k)
            if ent is None:
                ent = self.unitobj[k] = {"ev": threading.Event(), "started": False, "err": None,
                                         "path": os.path.join(self.work, k + ".o")}
            mine = not ent["started"]
            ent["started"] = True
        if mine:
            try:
                ll = self.compile_ir(unit.cfg)
                flags = []
                for c in unit.cfg.split("+"):
                    flags += [f for f in CFG_FLAGS[c] if f.startswith("-m")]
                r = subprocess.run([CLANGXX, "-O1", "-c", ll, "-o", ent["path"], "-Wno-everything"] + flags,
                                   capture_output=True, text=True)
                if r.returncode != 0:
                    ent["err"] = "clang -c failed: " + r.stderr[-500:]
                elif unit.prefix:
                    # rename vk_* symbols so two configurations can be linked together; everything else local
                    syms = subprocess.check_output(["llvm-nm-14", "--defined-only", "-g", ent["path"]], text=True)
                    names = [l.split()[-1] for l in syms.splitlines() if l.strip()]
                    mp = os.path.join(self.work, k + ".map")
                    with open(mp, "w") as f:
                        for s in names:
                            if s.startswith("vk_"):
                                f.write(f"{s} {unit.prefix}{s}\n")
                    keep = [s for s in names if s.startswith("vk_")]
                    cmd = ["llvm-objcopy-14"]
                    for s in names:
                        if not s.startswith("vk_"):
                            cmd += ["--localize-symbol=" + s]
                    # too many args for big objects: use a file
                    lf = os.path.join(self.work, k + ".loc")
                    open(lf, "w").write("\n".join(s for s in names if not s.startswith("vk_")) + "\n")
                    r = subprocess.run(["llvm-objcopy-14", "--localize-symbols=" + lf, "--redefine-syms=" + mp,
                                        ent["path"]], capture_output=True, text=True)
                    if r.returncode != 0:
                        ent["err"] = "objcopy failed: " + r.stderr[-300:]
            except Exception as e:  # noqa
                ent["err"] = str(e)
            ent["ev"].set()
        ent["ev"].wait()
        if ent["err"]:
            raise RuntimeError(ent["err"])
        return ent["path"]

    # ---------------------------------------------------------------- obligation file
    def obl_file(self, obl, mode, extra=""):
        """mode: 'cbmc' | 'replay' (real object code) | 'tvgen' (generated C natively)"""
        lines = []
        for k, v in obl.defs.items():
            lines.append(f"#define {k} {v}")
        lines.append(f'#include "{VERIF}/harness/h.h"')
        lines.append(extra)
        for u in obl.units:
            c = self.translate(u)
            if mode == "replay":
                lines.append(f'#include "{c[:-2]}_native.h"')
            else:
                lines.append(f'#include "{c}"')
        inits = " ".join(f"{u.prefix}ll2c_init_globals();" for u in obl.units)
        lines.append(f"#define VK_INIT_ALL() do {{ {inits} }} while (0)")
        lines.append(f'#include "{VERIF}/models/models.c"')
        if any(STR_REPLACE in u.stubs for u in obl.units):
            lines.append(f"#define VK_STR_MAX {obl.str_max}")
            if any(TO_ASCII in u.stubs for u in obl.units):
                lines.append("#define VK_STUB_TO_ASCII 1")
            lines.append(f'#include "{VERIF}/models/string_model.c"')
        lines.append(f'#include "{VERIF}/harness/{obl.harness}"')
        if mode == "replay":
            # the real object code allocates with the global operator new/delete: replace them (as any C++ program may)
            # by counting versions so that the ghost counter of models.c is also maintained in native replays
            lines.append("void* _Znwm(size_t n) { vk_live_blocks++; return malloc(n ? n : 1); }\nvoid* _Znam(size_t n) { vk_live_blocks++; return malloc(n ? n : 1); }\n"
                         "void* _ZnwmRKSt9nothrow_t(size_t n, void* t) { (void)t; vk_live_blocks++; return malloc(n ? n : 1); }\nvoid* _ZnamRKSt9nothrow_t(size_t n, void* t) { (void)t; vk_live_blocks++; return malloc(n ? n : 1); }\n"
                         "void _ZdlPv(void* p) { if (p) vk_live_blocks--; free(p); }\nvoid _ZdaPv(void* p) { if (p) vk_live_blocks--; free(p); }\n"
                         "void _ZdlPvm(void* p, size_t n) { (void)n; if (p) vk_live_blocks--; free(p); }\nvoid _ZdaPvm(void* p, size_t n) { (void)n; if (p) vk_live_blocks--; free(p); }\n")
        if mode != "cbmc":
            lines.append("int vk_fail_count = 0;\nvoid vk_skip(const char* why) { printf(\"ASSUME-FALSE: %s\\n\", why); exit(3); }\nint main(void) { harness(); if (vk_fail_count) { printf(\"REPLAY: %d check(s) failed\\n\", vk_fail_count); return 1; } printf(\"REPLAY: all checks passed\\n\"); return 0; }")
        path = os.path.join(self.work, f"{obl.name}.{mode}.c")
        open(path, "w").write("\n".join(lines) + "\n")
        return path

    # ---------------------------------------------------------------- solve
    def run_obl(self, obl):
        res = Result(obl)
        t0 = time.time()
        try:
            src = self.obl_file(obl, "cbmc")
        except Exception as e:  # noqa
            res.status, res.detail = "error", str(e)
            return res
        timeout = obl.timeout or (90 if self.tier == "quick" else 900)
        # loops of the models / helpers get their own (constant) bounds; --unwind is for the real code's loops
        hl = obl.helper_unwind
        sets = [f"ll2c_memcpy.0:{obl.maxcpy+1}", f"ll2c_memmove.0:{obl.maxcpy+1}", f"ll2c_memmove.1:{obl.maxcpy+1}",
                f"ll2c_memcpy_c.0:{4*obl.maxcpy+1}", f"ll2c_memmove_c.0:{4*obl.maxcpy+1}", f"ll2c_memmove_c.1:{4*obl.maxcpy+1}",
                f"ll2c_memset_c.0:{4*obl.maxcpy+1}",
                f"X_memchr.0:{hl}", f"X_memcmp.0:{hl}", f"X_bcmp.0:{hl}", f"X_strlen.0:{hl}",
                f"h_eq.0:{hl}", f"h_copy.0:{hl}", f"h_exact.0:{hl}"]
        mr = "X_" + STR_REPLACE
        sets += [f"{mr}.0:{obl.str_max+1}", f"{mr}.1:{obl.str_max+1}", f"{mr}.2:{obl.str_max+1}"]
        for u in obl.units:
            try:
                txt = open(self.translate(u)).read()
            except Exception:  # noqa
                txt = ""
            for m in set(re.findall(r"\b(\w*F_\w*vk_put\w*)\(", txt)):
                sets.append(f"{m}.0:{hl}")
        if obl.harness_unwind:
            # loops of the harness / reference models / INV get their own bound, so that --unwind only governs the loops of
            # the translated real code (their trip counts are bounded by the concrete input lengths of the query)
            try:
                lr = subprocess.run(["cbmc", src, "--show-loops", "--json-ui", "-I", os.path.join(VERIF, "ll2c"), "-I", os.path.join(VERIF, "harness"),
                                     "-I", os.path.join(VERIF, "ref"), f"-DLL2C_MAXCPY={obl.maxcpy}"] + (["-DVK_NO_HEAP=1"] if obl.no_heap else []),
                                    capture_output=True, text=True, timeout=120)
                have = set(x.split(":")[0] for x in sets)
                for item in json.loads(lr.stdout):
                    for lp in (item.get("loops") or []) if isinstance(item, dict) else []:
                        name = lp.get("name", "")
                        fn = name.rsplit(".", 1)[0]
                        if name in have or re.match(r"^(\w*?)F_", fn) or fn.startswith("ll2c_"):
                            continue
                        sets.append(f"{name}:{obl.harness_unwind}")
            except Exception as e:  # noqa
                log("show-loops failed:", str(e)[:100])
        cmd = ["cbmc", src, "--function", "harness", "--unwind", str(obl.unwind), "--unwinding-assertions",
               "--unwindset", ",".join(sets),
               "--drop-unused-functions", "--json-ui", "--trace", "--no-standard-checks",
               "-I", os.path.join(VERIF, "ll2c"), "-I", os.path.join(VERIF, "harness"), "-I", os.path.join(VERIF, "ref")]
        if obl.checks:
            cmd += CBMC_CHECKS
        for us in obl.unwindset:
            cmd += ["--unwindset", us]
        if obl.no_heap:
            cmd += ["-DVK_NO_HEAP=1"]
        cmd += [f"-DLL2C_MAXCPY={obl.maxcpy}"]
        backend = obl.backend or os.environ.get("VERIF_BACKEND", "minisat")
        if backend == "cadical":
            cmd += ["--sat-solver", "cadical"]
        elif backend == "kissat":
            cmd += ["--external-sat-solver", "kissat"]
        cmd += list(obl.extra_flags)
        res.cmd = " ".join(cmd).replace(self.work, "$WORK")
        mem_kb = obl.mem_gb * 1024 * 1024
        with self.mem_sem.take(obl.mem_gb):
            out_path = os.path.join(self.work, obl.name + ".json")
            with open(out_path, "w") as fo:
                def lim():
                    resource.setrlimit(resource.RLIMIT_AS, (mem_kb * 1024, mem_kb * 1024))
                    os.setsid()
                try:
                    p = subprocess.Popen(cmd, stdout=fo, stderr=subprocess.PIPE, preexec_fn=lim)
                    try:
                        _, err = p.communicate(timeout=timeout)
                    except subprocess.TimeoutExpired:
                        try:
                            os.killpg(p.pid, 9)
                        except Exception:  # noqa
                            p.kill()
                        p.communicate()
                        res.status, res.detail = "undecided", f"timeout {timeout}s"
                        res.time_s = time.time() - t0
                        return res
                finally:
                    pass
            ru = resource.getrusage(resource.RUSAGE_CHILDREN)
            res.rss_kb = ru.ru_maxrss
        res.time_s = time.time() - t0
        self.parse_cbmc(obl, res, out_path, p.returncode)
        if res.status == "failed" and obl.replay:
            try:
                if res.builtin_only:
                    self.replay_asan(obl, res)
                else:
                    self.replay(obl, res)
                    has_builtin = any(not d.get("description", "").startswith(("PROP:", "NORETURN")) for d in res.failed_props)
                    if (res.replay or {}).get("verdict") == "not-reproduced" and has_builtin:
                        # the functional difference depends on memory the code must not read: confirm the memory error itself
                        first = res.replay
                        self.replay_asan(obl, res)
                        res.replay["functional_replay"] = first.get("verdict")
            except Exception as e:  # noqa
                res.replay = {"verdict": "replay-error", "detail": str(e)[-500:]}
        return res

    def parse_cbmc(self, obl, res, out_path, rc):
        try:
            data = json.load(open(out_path))
        except Exception as e:  # noqa
            txt = open(out_path).read()[-600:] if os.path.exists(out_path) else ""
            res.status, res.detail = "undecided", f"cbmc rc={rc}, no parsable output (out of memory / crash?) {txt[-200:]}"
            return
        results = None
        msgs = []
        for item in data:
            if isinstance(item, dict):
                if "result" in item:
                    results = item["result"]
                if item.get("messageType") == "ERROR":
                    msgs.append(item.get("messageText", ""))
        if results is None:
            res.status, res.detail = ("undecided" if rc in (-9, 137, 6, -6) else "error"), \
                f"cbmc rc={rc}: " + " | ".join(msgs)[-800:]
            if "out of memory" in res.detail.lower() or "bad_alloc" in res.detail.lower():
                res.status = "undecided"
            return
        res.nprops = len(results)
        other = [r for r in results if r.get("status") not in ("SUCCESS", "FAILURE")]
        if other and not any(r.get("status") == "FAILURE" and not r.get("description", "").startswith("WITNESS:") for r in results):
            res.status, res.detail = "undecided", f"cbmc left {len(other)} propert(ies) undecided ({other[0].get('status')}); out of memory / solver error"
            return
        fails, wit = [], None
        for r in results:
            desc = r.get("description", "")
            st = r.get("status")
            if desc.startswith("WITNESS:"):
                if st == "FAILURE":
                    wit = r
                    res.witness_ok = True
                elif res.witness_ok is None:
                    res.witness_ok = False
                continue
            if st == "FAILURE":
                fails.append(r)
        if wit is not None and wit.get("trace"):
            res.witness_sample = extract_inputs(wit["trace"])
        unw = [f for f in fails if "unwinding assertion" in f.get("description", "")]
        if unw:
            res.status, res.detail = "undecided", "unwind bound too small: " + ", ".join(sorted(set(f.get("property", "") for f in unw)))[:300]
            return
        model = [f for f in fails if f.get("description", "").startswith("MODEL:") or "within modelled bound" in f.get("description", "")]
        if model:
            res.status, res.detail = "undecided", "model bound exceeded: " + "; ".join(sorted(set(f.get("description", "") for f in model)))[:300]
            return
        # Standard-level UB that no sanitizer can confirm (forming / comparing a pointer outside its object without
        # dereferencing it) is reported separately and is not a verdict
        soft = [f for f in fails if is_soft_ub(f.get("description", ""))]
        fails = [f for f in fails if not is_soft_ub(f.get("description", ""))]
        res.ub_notes = sorted(set(f"{f.get('description', '')} @ {(f.get('sourceLocation') or {}).get('function', '?')}" for f in soft))
        if fails:
            res.status = "failed"
            res.builtin_only = not any(f.get("description", "").startswith(("PROP:", "NORETURN")) for f in fails)
            res.failed_props = [{"property": f.get("property"), "description": f.get("description"),
                                 "line": (f.get("sourceLocation") or {}).get("line")} for f in fails]
            # prefer a PROP failure for the counterexample, then NORETURN, then built-in checks
            def rank(f):
                d = f.get("description", "")
                return 0 if d.startswith("PROP:") else 1 if d.startswith("NORETURN") else 2
            fails.sort(key=rank)
            for f in fails:
                if f.get("trace"):
                    res.cex = extract_inputs(f["trace"])
                    res.cex_desc = f.get("description")
                    break
            res.detail = "; ".join(sorted(set(f.get("description", "") for f in fails)))[:600]
            return
        if obl.witness and not res.witness_ok and obl.allow_vacuous:
            res.status, res.detail = "infeasible-case", "no state of this shape exists at this length (case of a case split; nothing to prove)"
            return
        if obl.witness and not res.witness_ok:
            res.status, res.detail = "vacuous", "reachability witness not reachable (assumptions unsatisfiable or harness does not reach the assertion)"
            return
        res.status = "discharged"

    # ---------------------------------------------------------------- replay against the real object code
    def replay(self, obl, res):
        if res.cex is None:
            res.replay = {"verdict": "no-trace"}
            return
        init = c_init(res.cex)
        extra = f"#define REPLAY 1\n#define REPLAY_INIT {init}\n"
        outs = {}
        for mode in (("tvgen",) if obl.replay == "generated" else ("replay", "tvgen")):
            src = self.obl_file(obl, mode, extra)
            exe = src[:-2] + ".exe"
            objs = []
            mflags = []
            if mode == "replay":
                seen = set()
                for u in obl.units:
                    o = self.native_obj(u)
                    if o not in seen:
                        objs.append(o)
                        seen.add(o)
                    for c in u.cfg.split("+"):
                        mflags += [f for f in CFG_FLAGS[c] if f.startswith("-m")]
            cobj = src[:-2] + ".o"
            r = subprocess.run([GCC, "-O0", "-w", "-c", src, "-o", cobj, "-I", os.path.join(VERIF, "ll2c"),
                                "-I", os.path.join(VERIF, "harness"), "-I", os.path.join(VERIF, "ref")],
                               capture_output=True, text=True)
            if r.returncode != 0:
                outs[mode] = {"rc": -1, "out": "compile failed: " + r.stderr[-400:]}
                continue
            r = subprocess.run([CLANGXX, "-no-pie", "-Wl,--unresolved-symbols=ignore-all", cobj] + objs + ["-o", exe, "-lpthread"], capture_output=True, text=True)
            if r.returncode != 0:
                outs[mode] = {"rc": -1, "out": "link failed: " + r.stderr[-400:]}
                continue
            try:
                r = subprocess.run([exe], capture_output=True, text=True, timeout=60, errors="replace")
                outs[mode] = {"rc": r.returncode, "out": (r.stdout + r.stderr)[-1500:]}
            except subprocess.TimeoutExpired:
                outs[mode] = {"rc": -2, "out": "timeout"}
        real = outs.get("replay", {})
        gen = outs.get("tvgen", {})
        if obl.replay == "generated":
            # schedule / stub counterexamples cannot be forced on the uninstrumented object code: they are re-executed
            # natively on the translated real code with the same hooks (the translation itself is validated separately)
            real = gen
        cb = set(d.get("description", "")[6:] for d in res.failed_props if d.get("description", "").startswith("PROP: "))
        cb |= set(d.get("description", "") for d in res.failed_props if d.get("description", "").startswith("NORETURN"))
        nat = set(re.findall(r"CHECK-FAIL: (.*)", real.get("out", "")))
        if real.get("rc") == 1 and "CHECK-FAIL" in real.get("out", "") and (cb & nat or not cb):
            verdict = "reproduced"
        elif real.get("rc") == 1 and "CHECK-FAIL" in real.get("out", ""):
            # the real code fails a DIFFERENT assertion than the one the solver refuted: the encoding (or a stub) and
            # the real code disagree on this input -> machinery problem, not a verdict
            verdict = "not-reproduced"
        elif real.get("rc") == 0:
            verdict = "not-reproduced"
        elif real.get("rc") is not None and real.get("rc") < -2 or real.get("rc") in (134, 139):
            verdict = "reproduced-crash"
        else:
            verdict = "replay-inconclusive"
        res.replay = {"verdict": verdict, "real": real, "generated_c": gen, "init": init}

    def asan_obj(self, unit):
        """the real code of one configuration compiled natively with ASan+UBSan (for replaying CBMC's built-in
        memory-safety / arithmetic failures); built only when needed"""
        k = "asan_" + unit.cfg
        with self.lock:
            ent = self.unitobj.get(k)
            if ent is None:
                ent = self.unitobj[k] = {"ev": threading.Event(), "started": False, "err": None,
                                         "path": os.path.join(self.work, k + ".o")}
            mine = not ent["started"]
            ent["started"] = True
        if mine:
            flags = []
            for c in unit.cfg.split("+"):
                flags += CFG_FLAGS[c]
            r = subprocess.run([CLANGXX, "-std=c++20", "-O1", "-g", "-fno-access-control", "-fno-exceptions", "-Wno-everything",
                                "-fsanitize=address,undefined", "-fno-sanitize-recover=undefined", "-fno-omit-frame-pointer",
                                "-I" + os.path.join(REPO, "include"), "-I" + os.path.join(REPO, "src")] + flags +
                               ["-c", os.path.join(VERIF, "shim", "vk.cpp"), "-o", ent["path"]], capture_output=True, text=True)
            if r.returncode != 0:
                ent["err"] = "asan build failed: " + r.stderr[-400:]
            ent["ev"].set()
        ent["ev"].wait()
        if ent["err"]:
            raise RuntimeError(ent["err"])
        return ent["path"]

    def replay_asan(self, obl, res):
        if res.cex is None or any(u.prefix for u in obl.units):
            res.replay = {"verdict": "unconfirmed-ub", "detail": "no sanitizer replay available for this obligation"}
            return
        init = c_init(res.cex)
        extra = f"#define REPLAY 1\n#define REPLAY_INIT {init}\n"
        src = self.obl_file(obl, "replay", extra)
        exe = src[:-2] + ".asan.exe"
        objs = []
        for u in obl.units:
            o = self.asan_obj(u)
            if o not in objs:
                objs.append(o)
        cobj = src[:-2] + ".asan.o"
        r = subprocess.run([GCC, "-O0", "-g", "-w", "-c", src, "-o", cobj, "-I", os.path.join(VERIF, "ll2c"),
                            "-I", os.path.join(VERIF, "harness"), "-I", os.path.join(VERIF, "ref")], capture_output=True, text=True)
        if r.returncode != 0:
            res.replay = {"verdict": "replay-error", "detail": r.stderr[-300:]}
            return
        r = subprocess.run([CLANGXX, "-fsanitize=address,undefined", cobj] + objs + ["-o", exe, "-lpthread"], capture_output=True, text=True)
        if r.returncode != 0:
            res.replay = {"verdict": "replay-error", "detail": r.stderr[-300:]}
            return
        try:
            r = subprocess.run([exe], capture_output=True, text=True, timeout=120, errors="replace",
                               env=dict(os.environ, ASAN_OPTIONS="detect_leaks=0:abort_on_error=0", UBSAN_OPTIONS="print_stacktrace=0"))
            out = (r.stdout + r.stderr)
        except subprocess.TimeoutExpired:
            res.replay = {"verdict": "replay-error", "detail": "timeout"}
            return
        hit = "AddressSanitizer" in out or "runtime error:" in out
        m = re.search(r"(ERROR: AddressSanitizer[^\n]*|[^\n]*runtime error:[^\n]*)", out)
        res.replay = {"verdict": "reproduced" if hit else "unconfirmed-ub", "sanitizer": (m.group(1)[:300] if m else ""),
                      "rc": r.returncode, "init": init, "mode": "asan+ubsan build of the real code"}

    # ---------------------------------------------------------------- run many
    def run_all(self, obls):
        results = []
        # translate units up-front in parallel (IR compile once per cfg)
        units = {}
        for o in obls:
            for u in o.units:
                units[u.key()] = u
        with ThreadPoolExecutor(max_workers=self.jobs) as ex:
            futs = {ex.submit(self._safe_translate, u): u for u in units.values()}
            for f in as_completed(futs):
                f.result()
        order = sorted(obls, key=lambda o: -o.weight)
        with ThreadPoolExecutor(max_workers=self.jobs) as ex:
            futs = {ex.submit(self.run_obl, o): o for o in order}
            for f in as_completed(futs):
                r = f.result()
                results.append(r)
                log(f"[{r.status:10s}] {r.obl.name} {r.time_s:.1f}s {r.detail[:160]}")
        results.sort(key=lambda r: r.obl.name)
        return results

    def _safe_translate(self, u):
        try:
            self.translate(u)
        except Exception as e:  # noqa
            pass


class MemSem:
    def __init__(self, total):
        self.total, self.used = total, 0
        self.cv = threading.Condition()

    def take(self, gb):
        sem = self

        class _Ctx:
            def __enter__(s):
                with sem.cv:
                    while sem.used + gb > sem.total and sem.used > 0:
                        sem.cv.wait()
                    sem.used += gb

            def __exit__(s, *a):
                with sem.cv:
                    sem.used -= gb
                    sem.cv.notify_all()
        return _Ctx()


def is_soft_ub(desc):
    return desc.startswith("pointer relation") or desc.startswith("pointer arithmetic") or desc.startswith("same object violation") or "pointer outside object bounds in" in desc and "dereference" not in desc


# ---------------------------------------------------------------- trace decoding
def _val(v):
    """CBMC json value -> python (int | list | dict)"""
    if v is None:
        return 0
    if "members" in v:
        return {m["name"]: _val(m["value"]) for m in v["members"]}
    if "elements" in v:
        return [_val(e["value"]) for e in v["elements"]]
    d = v.get("data")
    if d is None:
        return 0
    try:
        if isinstance(d, str) and d.startswith("'"):
            return v.get("binary") and int(v["binary"], 2) or 0
        return int(str(d).rstrip("ulUL"))
    except Exception:  # noqa
        b = v.get("binary")
        return int(b, 2) if b else 0


def extract_inputs(trace):
    """value assigned to the harness's `I` (struct inputs) — the whole nondeterministic input.
    (The first assignment to I in a trace is the hidden zero-initialisation of the declaration; the
    value returned by nondet_inputs() is the last whole-struct assignment.)"""
    found = None
    for step in trace:
        if step.get("stepType") != "assignment":
            continue
        lhs = step.get("lhs", "")
        v = step.get("value")
        if lhs in ("I", "return_value_nondet_inputs") and isinstance(v, dict) and "members" in v and not step.get("hidden"):
            found = _val(v)
    if found is None:
        for step in trace:
            if step.get("stepType") == "assignment" and step.get("lhs", "") == "I" and "members" in (step.get("value") or {}):
                found = _val(step["value"])
    return found


def c_init(v):
    if isinstance(v, dict):
        return "{" + ",".join(f".{k}={c_init(x)}" for k, x in v.items() if not k.startswith("$")) + "}"
    if isinstance(v, list):
        return "{" + ",".join(c_init(x) for x in v) + "}"
    if v < 0:
        return str(v) + "LL"
    return str(v) + "ULL"


def pretty_inputs(v):
    """compact rendering for evidence: byte arrays as escaped strings"""
    if isinstance(v, dict):
        return {k: pretty_inputs(x) for k, x in v.items() if not k.startswith("$")}
    if isinstance(v, list) and v and all(isinstance(x, int) and 0 <= x < 256 for x in v):
        return "".join(chr(x) if 32 <= x < 127 and chr(x) not in '\\"' else "\\x%02x" % x for x in v)
    if isinstance(v, list):
        return [pretty_inputs(x) for x in v]
    return v
