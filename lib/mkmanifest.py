#!/usr/bin/env python3
"""Regenerates MANIFEST.json from the obligations registry (claimed = properties with a prop_<id> function)."""
import json, os, sys
V = os.path.dirname(os.path.dirname(os.path.abspath(__file__)))
sys.path.insert(0, V); sys.path.insert(0, os.path.join(V, "lib"))
import obligations
from claims import CLAIMS, NOT_APPLICABLE
props = [json.loads(l) for l in open(os.path.join(V, "properties.jsonl"))]
import obligations as _ob
BASE = {}
for _name, _lst in (("INV base case", _ob.INV_BASE_CASE), ("limit sweep", _ob.LIMIT_BASE_CASE), ("whole-parse differential", tuple(_ob.DIFF_BASE_CASE)), ("WPT URL vectors", _ob.WPT_BASE_CASE),
                    ("setter sweep", _ob.SETTER_BASE_CASE), ("setter sweep under limits", _ob.SETTER_LIMIT_BASE_CASE), ("sort beyond 16 elements", _ob.SORT_BASE_CASE),
                    ("WPT URLPattern corpus with forced-regexp differential", _ob.URLPATTERN_BASE_CASE), ("NFC vs unicodedata + WPT to_ascii vectors", _ob.IDNA_BASE_CASE)):
    for _p in _lst:
        BASE.setdefault(_p, []).append(_name)
checks = []
na = []
for p in props:
    pid = p["id"]
    if hasattr(obligations, "prop_" + pid) and pid in CLAIMS:
        c = CLAIMS[pid]
        checks.append({
            "property_id": pid,
            "quick_cmd": f"./check {pid} --tier quick",
            "thorough_cmd": f"./check {pid} --tier thorough",
            "evidence_file": f"/verif/evidence/{pid}.json",
            "replay_cmd_template": "./check --replay {path}",
            "engine": "ll2c+cbmc",
            "level_claimed": {"category": "model_checking", "text": c["text"], "design_ref": c.get("design_ref", "DESIGN.md §4")},
            "level_note": c["note"],
            "technique": c.get("technique", "bounded symbolic execution of the real code: clang-14 LLVM IR of /repo -> own IR-to-C translator (ll2c) -> CBMC 6.11 (SAT: MiniSat2 / kissat), counterexamples replayed natively against the object code of the same IR"
                                  + ("; accompanied by native corpus base cases against the real object code (" + ", ".join(BASE[pid]) + "), reported separately and not counted as solver evidence" if BASE.get(pid) else "")),
        })
    else:
        na.append({"property_id": pid, "reason": NOT_APPLICABLE.get(pid, "no check registered yet for this property in this revision of the framework (work in progress; see DESIGN.md)")})
m = {
    "version": 1,
    "setup_cmd": "./setup.sh",
    "hooks": {"guard": "ADA_URL_ADA_VERIF", "enable": "the checks compile /repo/src/ada.cpp themselves (clang++-14) with -DADA_URL_ADA_VERIF=1; the one source hook (commit 36dd3c7: an inline flag ada::url_pattern_verif_force_regexp read in url_pattern_component::compile(), which sends every URLPattern component through the regular expression) is used by the native URLPattern base case of C14/C15 only; the solver obligations need no hook: the shim (shim/vk.cpp) is the same translation unit as ada.cpp, compiled with -fno-access-control",
              "baseline_off_cmd": "cmake --build /repo/_build -j16 -- -k 0 ; ctest --test-dir /repo/_build -j8 --timeout 900",
              "source_commits": ["36dd3c7"], "add_only": True},
    "engines": [{"name": "ll2c+cbmc", "path": "/verif/lib/engine.py", "serves_properties": [c["property_id"] for c in checks],
                 "kind_free_text": "clang-14 -O1 LLVM IR of the real sources -> ll2c (own translator, LLVM-14 API) -> C -> CBMC 6.11 bounded model checking with unwinding assertions; translation validation against the object code of the same IR; native replay of every counterexample"}],
    "checks": checks,
    "notes": "Every check rebuilds the IR from /repo's working tree. Exit 0 = all explored obligations held; exit 1 + VIOLATION = solver counterexample reproduced on the real object code; exit 2 = machinery problem (never a verdict). Genuine defects found and repaired are listed in known-findings.json.",
    "not_applicable": na,
}
json.dump(m, open(os.path.join(V, "MANIFEST.json"), "w"), indent=1)
print("claimed:", [c["property_id"] for c in checks], "not applicable:", [x["property_id"] for x in na])
