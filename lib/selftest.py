import sys; sys.path.insert(0,'/verif/lib')
from engine import *
e=Engine(keep=True); e.ensure_ll2c()
obls=[]
CFG=sys.argv[1]; HEAP=(CFG!='default')
for (op,root,m,defs) in [("upd_user","vk_st_update_base_username",2,{}),("set_username","vk_st_set_username",1,{"OP_FRAME_ONLY":1}),("clear_search","vk_st_clear_search",0,{})]:
  for n in (10,):
    u=Unit(CFG,[root],stubs=[STR_REPLACE])
    # ws://u@h:1/p?q  : P=3 UE=6 HS=6 HE=8 port=1 PS=10 SS=12->omitted
    d={"N":n,"M":m,"BN":15,"KERNEL":"F_"+root,}; d.update(defs)
    obls.append(Obl(f"step_{op}_{CFG}_n{n}","step.c",[u],defs=d,unwind=17, timeout=900, mem_gb=14, no_heap=not HEAP, maxcpy=16))
rs=e.run_all(obls)
for r in rs: print(r.obl.name,r.status,r.detail[:300],round(r.time_s),r.rss_kb,pretty_inputs(r.witness_sample) if r.witness_sample else None, pretty_inputs(r.cex) if r.cex else None, (r.replay or {}).get('verdict'))
print(e.work)
