import sys; sys.path.insert(0,'/verif/lib')
from engine import *
e=Engine(keep=True); e.ensure_ll2c()
obls=[]
for n in (4,7):
  for heap in (False,):
    u=Unit("default",["vk_agg_parse_ipv4"])
    obls.append(Obl(f"ipv4_agg_n{n}_{'sso' if heap else 'heap'}","ipv4_parse.c",[u],defs={"N":n,"KERNEL":"F_vk_agg_parse_ipv4"},unwind=n+2, unwindset=["ref_ipv4_parse.2:4","ref_ipv4_parse.3:4"], no_heap=heap, timeout=300, mem_gb=12))
    u=Unit("default",["vk_url_parse_ipv4"])
    obls.append(Obl(f"ipv4_url_n{n}","ipv4_parse.c",[u],defs={"N":n,"KERNEL":"F_vk_url_parse_ipv4"},unwind=n+2, unwindset=["ref_ipv4_parse.2:4","ref_ipv4_parse.3:4"], timeout=300, mem_gb=12))
rs=e.run_all(obls)
for r in rs: print(r.obl.name,r.status,r.detail[:300],round(r.time_s),r.rss_kb,pretty_inputs(r.witness_sample) if r.witness_sample else None, pretty_inputs(r.cex) if r.cex else None, (r.replay or {}).get('verdict'))
print(e.work)
