"""tv.py — translation validation of ll2c on every run.

For every unit (configuration, roots) used by the obligations of this run, the generated C is ALSO compiled
natively (gcc) and linked with the object code clang produces from the very same IR; both versions of every
root wrapper are run on inputs harvested from the repository's own corpora and must agree on the return value
and on every output byte.  A disagreement is an encoder failure (check exits 2), never a property verdict.
"""
import json, os, re, subprocess, struct, threading
from engine import VERIF, REPO, CLANGXX, GCC, CFG_FLAGS, log

# per-root calling conventions for the generic driver: minimal input length, p0 / p1 values to try
SPEC = {
    "vk_ser_ipv6": {"min_n": 16}, "vk_ipv6_longest": {"min_n": 16},
    "vk_ser_ipv4": {"p0": [0, 1, 255, 256, 0x7f000001, 0xc0a80001, 0xffffffff, 0x01020304, 0x64646464, 0x0a630963]},
    "vk_bit_at": {"p0": list(range(7)), "p1": [0, 0x20, 0x25, 0x27, 0x3f, 0x5e, 0x60, 0x7e, 0x7f, 0x80, 0xff]},
    "vk_hex_entry": {"p0": [0, 9, 10, 0x7f, 0xff]},
    "vk_percent_encode": {"p0": list(range(7)), "max_n": 5}, "vk_percent_encode_idx": {"p0": list(range(7)), "max_n": 5},
    "vk_percent_encode_out": {"p0": list(range(7)), "p1": [0, 1], "max_n": 4},
    "vk_percent_decode": {"max_n": 15}, "vk_form_decode": {"max_n": 15},
    "vk_byte_classes": {"p0": list(range(0, 256, 7))}, "vk_hex_to_binary": {"p0": [0x30, 0x39, 0x41, 0x46, 0x61, 0x66]},
    "vk_next_host_delim_special": {"p0": "upto_n"}, "vk_next_host_delim": {"p0": "upto_n"},
    "vk_host_delim_location": {"p0": [0, 1]},
    "vk_url_parse_ipv4": {"max_n": 15, "min_n": 1}, "vk_agg_parse_ipv4": {"max_n": 10, "min_n": 1},
    "vk_url_parse_ipv6": {"max_n": 45, "min_n": 0}, "vk_agg_parse_ipv6": {"max_n": 0},
    "vk_to_lower_ascii": {"cap_is_n": True},
    "vk_parse_state": {"skip": True}, "vk_set_limit": {"skip": True}, "vk_capi_get": {"state": True}, "vk_capi_owned": {"skip": True},
    "vk_capi_failed_mutators": {"max_n": 6}, "vk_canon": {"p0": [0, 1, 2, 3, 4, 5, 6, 7], "p1": [0, 1, 4, 5], "max_n": 5},
    "vk_char_class": {"p0": list(range(0, 256, 3))}, "vk_fast_path": {"max_n": 14}, "vk_url_fields_step": {"skip": True}, "vk_shorten_path": {"p0": [0, 1, 6], "p1": [0, 1], "max_n": 14}, "vk_puny_verify": {"max_n": 3}, "vk_puny_decode": {"max_n": 3}, "vk_puny_encode": {"min_n": 4, "max_n": 8}, "vk_escape": {"p0": [0, 1], "max_n": 7}, "vk_ensure_tables": {"skip": True}, "vk_tables_published": {"skip": True}, "vk_tables_env_publish": {"skip": True},
}
_corpus_cache = {}
_lock = threading.Lock()


def corpus():
    """byte strings cut from the repository's own test corpora (+ a few IPv4/percent specials)"""
    with _lock:
        if "c" in _corpus_cache:
            return _corpus_cache["c"]
        out = set()
        files = ["tests/wpt/urltestdata.json", "tests/wpt/setters_tests.json", "tests/wpt/toascii.json",
                 "tests/wpt/percent-encoding.json", "tests/wpt/verifydnslength_tests.json"]

        def walk(x):
            if isinstance(x, str):
                yield x
            elif isinstance(x, dict):
                for v in x.values():
                    yield from walk(v)
            elif isinstance(x, list):
                for v in x:
                    yield from walk(v)
        for f in files:
            p = os.path.join(REPO, f)
            if not os.path.exists(p):
                continue
            try:
                data = json.load(open(p, encoding="utf-8"))
            except Exception:  # noqa
                continue
            for s in walk(data):
                try:
                    b = s.encode("utf-8", "surrogatepass")
                except Exception:  # noqa
                    continue
                out.add(b[:48])
                for piece in re.split(rb"[/?#@]", b):
                    out.add(piece[:48])
                if len(b) > 20:
                    out.add(b[-17:])
                    out.add(b[:16]); out.add(b[:15]); out.add(b[:33])
        extra = [b"", b"1.2.3.4", b"0x7f.1", b"0300.0250.0.1", b"4294967295", b"4294967296", b"1.2.3.4.", b"1..2", b"256.1.1.1",
                 b"0x", b"0xffffffff", b"1.0xffffff", b"999.1.1.1", b"01.2.3.4", b"a%41%4", b"%", b"%%41", b"a+b%2Bc", b"%zz%30",
                 b"\x00\xff\x80 \t\n\r", b"[::1]", b"a:b/c\\d?e[f]", b"xn--nxasmq6b", b"1.2.3.4..", b"0.0.0.0", b"255.255.255.255",
                 b"255.255.255.255.", b"10.10.10.1000", b"1.1.1.01"]
        out.update(extra)
        res = sorted(out)
        _corpus_cache["c"] = res
        return res


DRIVER = r'''
#include <stdio.h>
#include <stdlib.h>
#include <string.h>
#include <stdint.h>
#include <setjmp.h>
int vk_fail_count = 0;
static jmp_buf vk_jb; static unsigned long vk_skipped = 0;
void vk_skip(const char* why) { (void)why; vk_skipped++; longjmp(vk_jb, 1); }
typedef uint64_t (*fn_t)(uint8_t*, uint64_t, uint8_t*, uint64_t, uint64_t, uint64_t);
struct ent { const char* name; fn_t gen; fn_t real; uint64_t min_n, max_n; int np0; uint64_t p0[40]; int np1; uint64_t p1[16]; int upto_n; int cap_is_n; int state; };
extern uint64_t STATEFN(uint8_t*, uint64_t, uint8_t*, uint64_t, uint64_t, uint64_t);
static const char* VALUES[] = {"", "a", "b c", "?x", "#y", "1", "80", "443", "65536", "8a", "/", "//", "/.", "..", "%%", "http", "ws", "file", "x:", "a@", ":", "\t?", "[::1]", "1.2", "é", "\\", "A", 0};
%(decls)s
static struct ent ents[] = { %(ents)s };
int main(int argc, char** argv) {
  FILE* f = fopen(argv[1], "rb"); if (!f) return 2;
  static uint8_t buf[256], oa[512], ob[512];
  unsigned long inputs = 0, mism = 0;
  %(inits)s
  for (;;) {
    uint32_t n; if (fread(&n, 4, 1, f) != 1) break;
    if (n > 200) return 2;
    if (n && fread(buf, 1, n, f) != n) return 2;
    for (unsigned e = 0; e < sizeof(ents)/sizeof(ents[0]); e++) {
      struct ent* E = &ents[e];
      if (E->state) {
        /* the corpus string is a URL: the REAL parser turns it into a state; each value of VALUES is then applied */
        static uint8_t st[600];
        uint64_t pr = STATEFN(buf, n, st, 36 + STATE_MAX, 0, 0);
        if ((pr & 0xff) != 1) continue;
        uint64_t L = pr >> 16;
        for (int vi = 0; VALUES[vi]; vi++) {
          uint64_t vl = strlen(VALUES[vi]);
          uint64_t tot = 36 + L + vl;
          uint8_t* ia = malloc(tot); uint8_t* ib = malloc(tot);
          memcpy(ia, st, 36 + L); memcpy(ia + 36 + L, VALUES[vi], vl); memcpy(ib, ia, tot);
          memset(oa, 0xAA, sizeof oa); memset(ob, 0xAA, sizeof ob);
          if (setjmp(vk_jb)) continue;
          uint64_t ra = E->gen(ia, tot, oa, 36 + 64, 7, 0);
          uint64_t rb = E->real(ib, tot, ob, 36 + 64, 7, 0);
          inputs++;
          if (ra != rb || memcmp(oa, ob, sizeof oa) != 0) { mism++; if (mism < 6) { printf("MISMATCH %%s url=%%.*s value=%%s gen=%%llx real=%%llx\n", E->name, (int)n, buf, VALUES[vi], (unsigned long long)ra, (unsigned long long)rb); } }
          free(ia); free(ib);
        }
        continue;
      }
      if (n < E->min_n || n > E->max_n) continue;
      int np0 = E->upto_n ? (int)n + 1 : E->np0;
      for (int i = 0; i < np0; i++) for (int j = 0; j < E->np1; j++) {
        uint64_t p0 = E->upto_n ? (uint64_t)i : E->p0[i], p1 = E->p1[j];
        uint8_t* ia = malloc(n ? n : 1); uint8_t* ib = malloc(n ? n : 1); memcpy(ia, buf, n); memcpy(ib, buf, n);
        memset(oa, 0xAA, sizeof oa); memset(ob, 0xAA, sizeof ob);
        uint64_t cap = E->cap_is_n ? n : 256;
        if (setjmp(vk_jb)) continue;
        uint64_t ra = E->gen(ia, n, oa, cap, p0, p1);
        uint64_t rb = E->real(ib, n, ob, cap, p0, p1);
        inputs++;
        if (ra != rb || memcmp(oa, ob, sizeof oa) != 0) {
          mism++;
          if (mism < 6) { printf("MISMATCH %%s n=%%u p0=%%llu p1=%%llu gen=%%llx real=%%llx in=", E->name, n, (unsigned long long)p0, (unsigned long long)p1, (unsigned long long)ra, (unsigned long long)rb); for (unsigned k = 0; k < n; k++) printf("%%02x", buf[k]); printf("\n"); }
        }
        free(ia); free(ib);
      }
    }
  }
  printf("TV inputs=%%lu mismatches=%%lu asserts=%%d skipped=%%lu\n", inputs, mism, vk_fail_count, vk_skipped);
  return mism || vk_fail_count ? 1 : 0;
}
'''


def run(eng, obls):
    units = {}
    for o in obls:
        for u in o.units:
            units[u.key()] = u
    stats = {"programs": 0, "inputs": 0, "disagreements_checked": 0, "mismatches": [], "units": []}
    cpath = os.path.join(eng.work, "corpus.bin")
    with open(cpath, "wb") as f:
        for b in corpus():
            f.write(struct.pack("<I", len(b)))
            f.write(b)
    threads = []
    res = {}

    def one(u):
        try:
            res[u.key()] = tv_unit(eng, u, cpath)
        except Exception as e:  # noqa
            res[u.key()] = {"error": str(e)[-600:]}
    for u in units.values():
        t = threading.Thread(target=one, args=(u,))
        t.start()
        threads.append(t)
        if len(threads) >= 8:
            for t in threads:
                t.join()
            threads = []
    for t in threads:
        t.join()
    for k, r in res.items():
        u = units[k]
        label = f"{u.cfg}:{','.join(u.roots)}"
        if "error" in r:
            stats["mismatches"].append(f"{label}: TV build/run error: {r['error']}")
            continue
        if r.get("skipped"):
            continue
        stats["programs"] += r["programs"]
        stats["inputs"] += r["inputs"]
        stats["units"].append({"unit": label, "inputs": r["inputs"]})
        if r["mismatches"]:
            stats["mismatches"].append(f"{label}: {r['mismatches']} disagreement(s): {r['first']}")
    stats["disagreements_checked"] = stats["inputs"]
    log(f"[tv] {stats['programs']} wrappers, {stats['inputs']} input evaluations, {len(stats['mismatches'])} problem(s)")
    return stats


def tv_unit(eng, u, cpath):
    if getattr(u, "atomics_hook", False):
        return {"skipped": True}
    from engine import STR_STUBS, TO_ASCII
    if u.stubs and sorted(x for x in u.stubs if x != TO_ASCII) != sorted(STR_STUBS):
        return {"skipped": True}
    roots = [r for r in u.roots if r.startswith("vk_") and SPEC.get(r, {}).get("max_n", 48) != 0 and not SPEC.get(r, {}).get("skip")]
    if not roots:
        return {"skipped": True}
    c = eng.translate(u)
    obj = eng.native_obj(u)
    decls, ents = [], []
    for r in roots:
        sp = SPEC.get(r, {})
        p0 = sp.get("p0", [0])
        upto = 1 if p0 == "upto_n" else 0
        if upto:
            p0 = [0]
        p1 = sp.get("p1", [0])
        decls.append(f"extern uint64_t {u.prefix}{r}(uint8_t*, uint64_t, uint8_t*, uint64_t, uint64_t, uint64_t);")
        ents.append('{"%s", %sF_%s, %s%s, %d, %d, %d, {%s}, %d, {%s}, %d, %d, %d}' % (
            r, u.prefix, r, u.prefix, r, sp.get("min_n", 0), sp.get("max_n", 48), len(p0), ",".join(str(x) + "ULL" for x in p0),
            len(p1), ",".join(str(x) + "ULL" for x in p1), upto, 1 if sp.get("cap_is_n") else 0, 1 if (r.startswith("vk_st_") or r.startswith("vk_tw_") or sp.get("state")) else 0))
    src = os.path.join(eng.work, "tv_" + u.key() + ".c")
    with open(src, "w") as f:
        f.write(f'#include "{VERIF}/ll2c/ll2c_rt.h"\n#include "{c}"\n#include "{VERIF}/models/models.c"\n')
        if u.stubs and TO_ASCII in u.stubs:
            f.write("#define VK_STUB_TO_ASCII 1\n")
        if u.stubs:
            f.write(f'#define VK_STR_MAX 16\n#define VK_NO_HEAP 1\n#include "{VERIF}/models/string_model.c"\n')
        smax = 14 if u.stubs else 40
        f.write(f"#define STATEFN {u.prefix}vk_parse_state\n#define STATE_MAX {smax}\n")
        f.write(DRIVER % {"decls": "\n".join(decls), "ents": ",\n".join(ents), "inits": f"{u.prefix}ll2c_init_globals();"})
    o = src[:-2] + ".o"
    exe = src[:-2] + ".exe"
    r = subprocess.run([GCC, "-O1", "-w", "-c", src, "-o", o, "-I", os.path.join(VERIF, "ll2c")], capture_output=True, text=True)
    if r.returncode != 0:
        return {"error": "gcc: " + r.stderr[-500:]}
    r = subprocess.run([CLANGXX, "-no-pie", "-Wl,--unresolved-symbols=ignore-all", o, obj, "-o", exe, "-lpthread"], capture_output=True, text=True)
    if r.returncode != 0:
        return {"error": "link: " + r.stderr[-500:]}
    r = subprocess.run([exe, cpath], capture_output=True, text=True, errors="replace", timeout=600)
    m = re.search(r"TV inputs=(\d+) mismatches=(\d+) asserts=(\d+)", r.stdout)
    if not m:
        return {"error": f"driver rc={r.returncode}: " + (r.stdout + r.stderr)[-400:]}
    first = ""
    mm = re.search(r"MISMATCH.*", r.stdout)
    if mm:
        first = mm.group(0)[:300]
    nm = int(m.group(2)) + int(m.group(3))
    if int(m.group(3)) and not first:
        first = "assertion inside generated code fired: " + r.stdout[:300]
    return {"programs": len(roots), "inputs": int(m.group(1)), "mismatches": nm, "first": first}


def inv_corpus(eng):
    """native: every URL the real parser produces from the corpora satisfies INV (harness/inv_corpus.c)"""
    from engine import Unit
    u = Unit("default", ["vk_parse_state"])
    obj = eng.native_obj(u)
    cpath = os.path.join(eng.work, "corpus_full.bin")
    with open(cpath, "wb") as f:
        for b in corpus_full():
            f.write(struct.pack("<I", len(b)))
            f.write(b)
    exe = os.path.join(eng.work, "inv_corpus.exe")
    o = os.path.join(eng.work, "inv_corpus.o")
    r = subprocess.run([GCC, "-O1", "-w", "-c", os.path.join(VERIF, "harness", "inv_corpus.c"), "-o", o,
                        "-I", os.path.join(VERIF, "harness"), "-I", os.path.join(VERIF, "ref")], capture_output=True, text=True)
    if r.returncode != 0:
        return {"error": "gcc: " + r.stderr[-400:]}
    r = subprocess.run([CLANGXX, "-no-pie", "-Wl,--unresolved-symbols=ignore-all", o, obj, "-o", exe, "-lpthread"], capture_output=True, text=True)
    if r.returncode != 0:
        return {"error": "link: " + r.stderr[-400:]}
    r = subprocess.run([exe, cpath], capture_output=True, text=True, errors="replace", timeout=600)
    m = re.search(r"INVCORPUS parsed=(\d+) bad=(\d+)", r.stdout)
    if not m:
        return {"error": f"rc={r.returncode} " + (r.stdout + r.stderr)[-300:]}
    fails = re.findall(r"INV-FAIL.*", r.stdout)
    return {"parsed": int(m.group(1)), "bad": int(m.group(2)), "fails": [x[:300] for x in fails[:8]]}


def corpus_full():
    """whole input strings of the URL corpora (<= 200 bytes)"""
    out = set()
    for f in ["tests/wpt/urltestdata.json", "tests/wpt/setters_tests.json"]:
        p = os.path.join(REPO, f)
        if not os.path.exists(p):
            continue
        try:
            data = json.load(open(p, encoding="utf-8"))
        except Exception:  # noqa
            continue

        def walk(x):
            if isinstance(x, str):
                yield x
            elif isinstance(x, dict):
                for v in x.values():
                    yield from walk(v)
            elif isinstance(x, list):
                for v in x:
                    yield from walk(v)
        for s in walk(data):
            try:
                b = s.encode("utf-8", "surrogatepass")
            except Exception:  # noqa
                continue
            if len(b) <= 200:
                out.add(b)
    # hand-picked shapes that the corpora lack (credentials without a username, ports on non-special schemes, guarded paths, ...)
    out.update([b"foo://:secret@example.com/p", b"sc://user:pw@h:8/p?q#f", b"sc://h:1/", b"sc://:pw@h", b"file://1.2.3.4/C:/", b"foo:/bar", b"foo:/.//p?q#",
                b"http://u:p@1.2.3.4:81/", b"https://:p@[::1]:444/?#", b"ws://u@a.b:80", b"sc:opaque path ?q#f", b"ftp://h:2121/a/b/../c", b"http://example.com:443/a",
                b"wss://example.com:80/", b"sc://[::1]/p", b"file:///C:/x", b"foo://@h/", b"foo://h?", b"foo://h#",
                # legacy drive letters behind vanishing dot segments, in every position the path builders treat differently
                b"file:///./C|/x", b"file:///tmp/../C|/x", b"../../C|/x", b"./C|/x", b"file:/.//C|", b"file:///%2e/C|/", b"file:///a/..//C|/", b"file://h/./C|/x",
                b"file:C|/x", b"file:./C|", b"C|", b"/C|/../D|/x", b"file:///C|/../D|", b"http://h/./C|/x"])
    return sorted(out)


def limit_corpus(eng):
    """native base case for C09/C08: the real parser under limits around the sizes involved (harness/limit_corpus.c)"""
    from engine import Unit
    u = Unit("default", ["vk_parse_limited"])
    obj = eng.native_obj(u)
    cpath = os.path.join(eng.work, "corpus_full.bin")
    if not os.path.exists(cpath):
        with open(cpath, "wb") as f:
            for b in corpus_full():
                f.write(struct.pack("<I", len(b)))
                f.write(b)
    exe = os.path.join(eng.work, "limit_corpus.exe")
    o = os.path.join(eng.work, "limit_corpus.o")
    r = subprocess.run([GCC, "-O1", "-w", "-c", os.path.join(VERIF, "harness", "limit_corpus.c"), "-o", o], capture_output=True, text=True)
    if r.returncode != 0:
        return {"error": "gcc: " + r.stderr[-400:]}
    r = subprocess.run([CLANGXX, "-no-pie", o, obj, "-o", exe, "-lpthread"], capture_output=True, text=True)
    if r.returncode != 0:
        return {"error": "link: " + r.stderr[-400:]}
    r = subprocess.run([exe, cpath], capture_output=True, text=True, errors="replace", timeout=900)
    m = re.search(r"LIMITCORPUS runs=(\d+) bad=(\d+)", r.stdout)
    if not m:
        return {"error": f"rc={r.returncode} " + (r.stdout + r.stderr)[-300:]}
    return {"parsed": int(m.group(1)), "bad": int(m.group(2)), "fails": [x[:300] for x in re.findall(r"LIMIT-FAIL.*", r.stdout)[:8]]}


def diff_corpus(eng, mask):
    """native whole-parse differential base case (harness/diff_corpus.c); mask = disagreement bits that count"""
    from engine import Unit
    u = Unit("default", ["vk_diff_parse"])
    obj = eng.native_obj(u)
    cpath = os.path.join(eng.work, "corpus_full.bin")
    if not os.path.exists(cpath):
        with open(cpath, "wb") as f:
            for b in corpus_full():
                f.write(struct.pack("<I", len(b)))
                f.write(b)
    exe = os.path.join(eng.work, "diff_corpus.exe")
    o = os.path.join(eng.work, "diff_corpus.o")
    r = subprocess.run([GCC, "-O1", "-w", "-c", os.path.join(VERIF, "harness", "diff_corpus.c"), "-o", o], capture_output=True, text=True)
    if r.returncode != 0:
        return {"error": "gcc: " + r.stderr[-400:]}
    r = subprocess.run([CLANGXX, "-no-pie", o, obj, "-o", exe, "-lpthread"], capture_output=True, text=True)
    if r.returncode != 0:
        return {"error": "link: " + r.stderr[-400:]}
    r = subprocess.run([exe, cpath, str(mask)], capture_output=True, text=True, errors="replace", timeout=900)
    m = re.search(r"DIFFCORPUS runs=(\d+) bad=(\d+)", r.stdout)
    if not m:
        return {"error": f"rc={r.returncode} " + (r.stdout + r.stderr)[-300:]}
    return {"parsed": int(m.group(1)), "bad": int(m.group(2)), "fails": [x[:300] for x in re.findall(r"DIFF-FAIL.*", r.stdout)[:8]]}


def wpt_vectors(eng):
    """native base case for C01: expectations of tests/wpt/urltestdata.json (harness/wpt_vectors.cpp)"""
    d = json.load(open(os.path.join(REPO, "tests/wpt/urltestdata.json"), encoding="utf-8"))

    def cstr(x):
        b = x.encode("utf-8", "surrogatepass")
        return '"' + "".join('\\x%02x""' % c if (c < 32 or c > 126 or c in (34, 92, 63)) else chr(c) for c in b) + '"', len(b)
    rows = []
    for t in d:
        if not isinstance(t, dict):
            continue
        try:
            i, il = cstr(t["input"])
            base = t.get("base")
            b, bl = cstr(base) if base is not None else ('""', 0)
            if t.get("failure"):
                rows.append(f'{{{i},{il},{b},{bl},{1 if base is not None else 0},1,"",0}}')
            else:
                h, hl = cstr(t["href"])
                rows.append(f'{{{i},{il},{b},{bl},{1 if base is not None else 0},0,{h},{hl}}}')
        except Exception:  # noqa
            pass
    wd = os.path.join(eng.work, "wptvec")
    os.makedirs(wd, exist_ok=True)
    open(os.path.join(wd, "vec.h"), "w").write("struct V{const char*i;int il;const char*b;int bl;int hasb;int fail;const char*h;int hl;};\nstatic V vecs[]={\n" + ",\n".join(rows) + "\n};\n")
    exe = os.path.join(wd, "wptvec.exe")
    r = subprocess.run([CLANGXX, "-std=c++20", "-O1", "-w", "-I" + wd, "-I" + os.path.join(REPO, "include"), "-I" + os.path.join(REPO, "src"),
                        os.path.join(VERIF, "harness", "wpt_vectors.cpp"), os.path.join(REPO, "src", "ada.cpp"), "-o", exe], capture_output=True, text=True)
    if r.returncode != 0:
        return {"error": "build: " + r.stderr[-400:]}
    r = subprocess.run([exe], capture_output=True, text=True, errors="replace", timeout=600)
    bad = sum(int(x) for x in re.findall(r"WPTVEC \w+ bad=(\d+)", r.stdout))
    if "WPTVEC" not in r.stdout:
        return {"error": f"rc={r.returncode} " + (r.stdout + r.stderr)[-300:]}
    fails = [x[:300] for x in r.stdout.splitlines() if "MISMATCH" in x or " HREF " in x][:8]
    return {"parsed": 2 * len(rows), "bad": bad, "fails": fails}


def setter_values():
    out = set([b"", b"a", b"b c", b"?x", b"#y", b"1", b"80", b"443", b"65536", b"8a", b"/", b"//", b"/.", b"..", b"%", b"http", b"HTTPS", b"ws", b"file", b"x:",
               b"a@", b":", b"\t?", b"[::1]", b"1.2", b"1.2.3.4", b"1.2.3.4.5", b"0x100000000", b"256.256.256.256", b"example.com", b"EXAMPLE.com:8080",
               b"FILE", b"File:", b"fILe", b"HTTPS:", b"Https", b"HTTP", b"WSS", b"Ws:", b"FtP", b"\\", b"A", b"xn--", b" ", b"a b", b"//x", b"/a/../b", b"C|", b"localhost", b"a:b@c", b"\x00", b"~", b"^", b"<>", b"`", b"{}", b"'"])
    p = os.path.join(REPO, "tests/wpt/setters_tests.json")
    try:
        d = json.load(open(p, encoding="utf-8"))
        for k, v in d.items():
            if isinstance(v, list):
                for t in v:
                    if isinstance(t, dict) and isinstance(t.get("new_value"), str):
                        out.add(t["new_value"].encode("utf-8", "surrogatepass")[:60])
    except Exception:  # noqa
        pass
    return sorted(out)


def setter_corpus(eng, limit=False):
    """native setter sweep (harness/setter_corpus.c); limit=True: the same sweep under limits (C09)"""
    from engine import Unit
    u = Unit("default", ["vk_setter_sweep", "vk_setter_limit"])
    obj = eng.native_obj(u)
    cpath = os.path.join(eng.work, "corpus_full.bin")
    if not os.path.exists(cpath):
        with open(cpath, "wb") as f:
            for b in corpus_full():
                f.write(struct.pack("<I", len(b)))
                f.write(b)
    vpath = os.path.join(eng.work, "setter_values.bin")
    with open(vpath, "wb") as f:
        for b in setter_values():
            f.write(struct.pack("<I", len(b)))
            f.write(b)
    exe = os.path.join(eng.work, "setter_corpus.exe")
    o = os.path.join(eng.work, "setter_corpus.o")
    r = subprocess.run([GCC, "-O1", "-w", "-c", os.path.join(VERIF, "harness", "setter_corpus.c"), "-o", o, "-I", os.path.join(VERIF, "harness")], capture_output=True, text=True)
    if r.returncode != 0:
        return {"error": "gcc: " + r.stderr[-400:]}
    r = subprocess.run([CLANGXX, "-no-pie", o, obj, "-o", exe, "-lpthread"], capture_output=True, text=True)
    if r.returncode != 0:
        return {"error": "link: " + r.stderr[-400:]}
    r = subprocess.run([exe, cpath, vpath] + (["L"] if limit else []), capture_output=True, text=True, errors="replace", timeout=2400)
    m = re.search(r"SETTERCORPUS runs=(\d+) bad=(\d+)", r.stdout)
    if not m:
        return {"error": f"rc={r.returncode} " + (r.stdout + r.stderr)[-300:]}
    return {"parsed": int(m.group(1)), "bad": int(m.group(2)), "fails": [x[:300] for x in re.findall(r"SETTER-FAIL.*", r.stdout)[:10]]}


def sort_corpus(eng):
    """native url_search_params::sort base case beyond the solver's 16-element bound (harness/sort_corpus.c)"""
    from engine import Unit
    u = Unit("default", ["vk_sp_sort"])
    obj = eng.native_obj(u)
    exe = os.path.join(eng.work, "sort_corpus.exe")
    o = os.path.join(eng.work, "sort_corpus.o")
    r = subprocess.run([GCC, "-O1", "-w", "-c", os.path.join(VERIF, "harness", "sort_corpus.c"), "-o", o], capture_output=True, text=True)
    if r.returncode != 0:
        return {"error": "gcc: " + r.stderr[-400:]}
    r = subprocess.run([CLANGXX, "-no-pie", o, obj, "-o", exe, "-lpthread"], capture_output=True, text=True)
    if r.returncode != 0:
        return {"error": "link: " + r.stderr[-400:]}
    r = subprocess.run([exe], capture_output=True, text=True, errors="replace", timeout=600)
    m = re.search(r"SORTCORPUS runs=(\d+) bad=(\d+)", r.stdout)
    if not m:
        return {"error": f"rc={r.returncode} " + (r.stdout + r.stderr)[-300:]}
    return {"parsed": int(m.group(1)), "bad": int(m.group(2)), "fails": [x[:400] for x in re.findall(r"SORT-FAIL.*", r.stdout)[:5]]}


def _up_unsupported(pattern):
    """port of uses_unsupported_regex_syntax (tests/wpt_urlpattern_tests.cpp): features std::regex cannot express"""
    valid = set("dDsSwWbBtnrvfcxupPkq^$\\.*+?()[]{}|/-0123456789")
    depth = 0
    i = 0
    while i < len(pattern):
        c = pattern[i]
        if c == "[" and (i == 0 or pattern[i - 1] != "\\"):
            depth += 1
        elif c == "]" and depth > 0 and (i == 0 or pattern[i - 1] != "\\"):
            depth -= 1
        if depth > 0 and i + 1 < len(pattern) and ((c == "-" and pattern[i + 1] == "-") or (c == "&" and pattern[i + 1] == "&")):
            return True
        if depth == 0 and c == "(" and pattern[i + 1:i + 3] == "?<" and i + 3 < len(pattern) and pattern[i + 3] not in "=!":
            return True
        if c == "\\" and i + 1 < len(pattern):
            if pattern[i + 1] not in valid:
                return True
            i += 1
        i += 1
    return False


def urlpattern_vectors(eng):
    """native base case for C14/C15: tests/wpt/urlpatterntestdata.json through harness/urlpattern_vectors.cpp"""
    d = json.load(open(os.path.join(REPO, "tests/wpt/urlpatterntestdata.json"), encoding="utf-8"))
    KEYS = ("protocol", "username", "password", "hostname", "port", "pathname", "search", "hash", "baseURL")

    class Skip(Exception):
        pass

    def hx(x):
        try:
            b = x.encode("utf-8")
        except UnicodeEncodeError:
            raise Skip()          # broken surrogates: the repository's own runner skips these too
        return b.hex() or "-"

    def arg(x):
        if isinstance(x, str):
            return "S " + hx(x)
        return "I " + " ".join(f"{k}={hx(v)}" for k, v in x.items() if k in KEYS and isinstance(v, str))
    lines = []
    n = 0
    for idx, t in enumerate(d):
        if not isinstance(t, dict):
            continue
        try:
            out = [f"V {idx}"]
            pats = t["pattern"]
            init, base, opt = {}, None, None
            if pats:
                first = pats[0]
                if isinstance(first, dict) and any(isinstance(v, bool) for v in first.values()):
                    init, opt = {}, [v for v in first.values() if isinstance(v, bool)][0]
                else:
                    init = first
                    bad = False
                    for k, x in enumerate(pats[1:], 1):
                        if k == 1:
                            if isinstance(x, str):
                                base = x
                            else:
                                opt = bool(x.get("ignoreCase", False))
                        elif k == 2:
                            if isinstance(x, dict):
                                opt = bool(x.get("ignoreCase", False))
                            else:
                                bad = True
                    if bad:
                        continue
            texts = [init] if isinstance(init, str) else [init.get(k) for k in ("pathname", "search", "hash", "hostname", "protocol") if isinstance(init.get(k), str)]
            if any(_up_unsupported(x) for x in texts):
                continue
            out.append("P " + arg(init))
            if base is not None:
                out.append("PB " + hx(base))
            if opt is not None:
                out.append(f"PO {1 if opt else 0}")
            eo = t.get("expected_obj")
            if eo == "error":
                out.append("EO error")
            elif isinstance(eo, dict):
                out.append("EO " + " ".join(f"{k}={hx(v)}" for k, v in eo.items()))
            if t.get("exactly_empty_components"):
                out.append("EE " + " ".join(t["exactly_empty_components"]))
            if "inputs" in t:
                ins = t["inputs"]
                first = ins[0] if ins else {}
                out.append("I " + arg(first))
                if len(ins) > 1:
                    out.append("IB " + hx(ins[1]))
                em = t.get("expected_match", "absent")
                if em == "error":
                    out.append("EM error")
                elif em is None:
                    out.append("EM null")
                elif isinstance(em, dict):
                    out.append("EM object")
                    for k, c in em.items():
                        if k == "inputs":
                            if not c:
                                out.append("EI")
                            for x in c:
                                out.append("EI " + arg(x))
                            continue
                        out.append(f"C {k} {hx(c.get('input', ''))}")
                        for g, gv in c.get("groups", {}).items():
                            if gv is None:
                                out.append("SKIPM")
                            else:
                                out.append(f"G {hx(g)} {hx(gv)}")
            out.append("END")
            lines += out
            n += 1
        except Skip:
            continue
    wd = os.path.join(eng.work, "upvec")
    os.makedirs(wd, exist_ok=True)
    open(os.path.join(wd, "vectors.txt"), "w").write("\n".join(lines) + "\n")
    exe = os.path.join(wd, "upvec.exe")
    r = subprocess.run([CLANGXX, "-std=c++20", "-O1", "-w", "-DADA_URL_ADA_VERIF=1", "-DADA_USE_UNSAFE_STD_REGEX_PROVIDER=1", "-DADA_INCLUDE_URL_PATTERN=1",
                        "-I" + os.path.join(REPO, "include"), "-I" + os.path.join(REPO, "src"),
                        os.path.join(VERIF, "harness", "urlpattern_vectors.cpp"), os.path.join(REPO, "src", "ada.cpp"), "-o", exe], capture_output=True, text=True)
    if r.returncode != 0:
        return {"error": "build: " + r.stderr[-600:]}
    r = subprocess.run([exe, os.path.join(wd, "vectors.txt")], capture_output=True, text=True, errors="replace", timeout=1800)
    res = {}
    for pid in ("C14", "C15"):
        m = re.search(rf"UPVEC {pid} runs=(\d+) bad=(\d+)", r.stdout)
        if not m:
            return {"error": f"rc={r.returncode} " + (r.stdout + r.stderr)[-400:]}
        res[pid] = {"parsed": int(m.group(1)), "bad": int(m.group(2)), "vectors": n,
                    "fails": [x[:400] for x in r.stdout.splitlines() if x.startswith(f"UPVEC-FAIL {pid}")][:6]}
    return res


def idna_corpus(eng):
    """native base cases for C06/C16: NFC against Python's unicodedata (stability policy) and the WPT to_ascii vectors"""
    import unicodedata
    from engine import Unit
    recs = []

    stable = {}

    def nfc_rec(cps):
        # only strings the IDNA mapping step can hand to the normaliser: every code point is unchanged by NFKC (the
        # UTS #46 table maps every other one away first, e.g. the composition-excluded U+0958, which
        # ada::idna::normalize alone leaves as it is - not reachable through to_ascii, so not demanded here)
        for c in cps:
            if c not in stable:
                stable[c] = unicodedata.normalize("NFKC", chr(c)) == chr(c)
            if not stable[c]:
                return
        st = "".join(chr(c) for c in cps)
        w = unicodedata.normalize("NFC", st)
        a = b"".join(struct.pack("<I", c) for c in cps)
        b = b"".join(struct.pack("<I", ord(c)) for c in w)
        recs.append(struct.pack("<II", 0, len(a)) + a + struct.pack("<I", len(b)) + b)
    assigned = [c for c in range(0x110000) if not (0xD800 <= c < 0xE000) and unicodedata.category(chr(c)) != "Cn"]
    marks = {}
    for c in assigned:
        nfc_rec([c])
        cc = unicodedata.combining(chr(c))
        if cc:
            marks.setdefault(cc, [])
            if len(marks[cc]) < 2:
                marks[cc].append(c)
        d = unicodedata.normalize("NFD", chr(c))
        if d != chr(c):
            dl = [ord(x) for x in d]
            nfc_rec(dl)
            if len(dl) >= 2:
                nfc_rec(dl + [0x0301])
                nfc_rec(dl[:1] + [0x0316] + dl[1:])          # a lower-class mark in between does not block
                nfc_rec(dl[:1] + [dl[1], dl[1]] + dl[2:])     # the same mark twice: the second is blocked
                nfc_rec(dl[:1] + [0x0041] + dl[1:])           # a starter in between blocks
    ml = [m for cc in sorted(marks) for m in marks[cc]]
    for a in ml:
        for b in ml:
            nfc_rec([0x61, a, b])
    for a in ml[::3]:
        for b in ml[::5]:
            for c in ml[::7]:
                nfc_rec([0x61, a, b, c])
    # long runs of combining marks (library sorts switch algorithm above 15-16 elements): every class twice, interleaved
    # and reversed, behind a plain and behind a decomposable base
    for base in ([0x61], [0xE9], [0x1EA5]):
        for ln in (16, 17, 18, 24, 33, 40):
            run = [ml[(7 * i) % len(ml)] for i in range(ln)]
            nfc_rec(base + run)
            nfc_rec(base + run[::-1])
            two = [m for cc in sorted(marks, reverse=True) for m in marks[cc][::-1]][:ln]
            nfc_rec(base + two)
    for l in (0x1100, 0x1105, 0x1112):
        for v in (0x1161, 0x116A, 0x1175):
            nfc_rec([l, v])
            for t in (0x11A7, 0x11A8, 0x11C2, 0x11C3):
                nfc_rec([l, v, t])
                nfc_rec([0xAC00 + ((l - 0x1100) * 21 + (v - 0x1161)) * 28, t])
    n_nfc = len(recs)
    for fn in ("toascii.json", "IdnaTestV2.json"):
        try:
            d = json.load(open(os.path.join(REPO, "tests/wpt", fn), encoding="utf-8"))
        except Exception:  # noqa
            continue
        for t in d:
            if not isinstance(t, dict) or "input" not in t:
                continue
            try:
                a = t["input"].encode("utf-8")
                o = t.get("output")
                b = o.encode("utf-8") if isinstance(o, str) else b""
            except UnicodeEncodeError:
                continue
            if not a:
                continue
            recs.append(struct.pack("<II", 1 if isinstance(o, str) and o else 2, len(a)) + a + struct.pack("<I", len(b)) + b)
    vpath = os.path.join(eng.work, "idna_vectors.bin")
    open(vpath, "wb").write(b"".join(recs))
    u = Unit("default", ["vk_nfc_real", "vk_to_ascii_vec"])
    obj = eng.native_obj(u)
    exe = os.path.join(eng.work, "idna_corpus.exe")
    o = os.path.join(eng.work, "idna_corpus.o")
    r = subprocess.run([GCC, "-O1", "-w", "-c", os.path.join(VERIF, "harness", "idna_corpus.c"), "-o", o], capture_output=True, text=True)
    if r.returncode != 0:
        return {"error": "gcc: " + r.stderr[-400:]}
    r = subprocess.run([CLANGXX, "-no-pie", o, obj, "-o", exe, "-lpthread"], capture_output=True, text=True)
    if r.returncode != 0:
        return {"error": "link: " + r.stderr[-400:]}
    r = subprocess.run([exe, vpath], capture_output=True, text=True, errors="replace", timeout=1200)
    m = re.search(r"IDNACORPUS nfc runs=(\d+) bad=(\d+) toascii runs=(\d+) bad=(\d+)", r.stdout)
    if not m:
        return {"error": f"rc={r.returncode} " + (r.stdout + r.stderr)[-300:]}
    return {"parsed": int(m.group(1)) + int(m.group(3)), "bad": int(m.group(2)) + int(m.group(4)), "nfc_vectors": int(m.group(1)), "nfc_bad": int(m.group(2)),
            "toascii_vectors": int(m.group(3)), "toascii_bad": int(m.group(4)), "unicodedata": unicodedata.unidata_version,
            "fails": [x[:400] for x in re.findall(r"IDNA-FAIL.*", r.stdout)[:10]]}


def sp_model(eng):
    """native list-model base case for C12: url_search_params vs the Standard's list of pairs over histories (harness/sp_model.cpp)"""
    wd = os.path.join(eng.work, "spmodel")
    os.makedirs(wd, exist_ok=True)
    exe = os.path.join(wd, "sp_model.exe")
    r = subprocess.run([CLANGXX, "-std=c++20", "-O1", "-w", "-I" + os.path.join(REPO, "include"), "-I" + os.path.join(REPO, "src"),
                        os.path.join(VERIF, "harness", "sp_model.cpp"), os.path.join(REPO, "src", "ada.cpp"), "-o", exe], capture_output=True, text=True)
    if r.returncode != 0:
        return {"error": "build: " + r.stderr[-400:]}
    r = subprocess.run([exe], capture_output=True, text=True, errors="replace", timeout=900)
    m = re.search(r"SPMODEL runs=(\d+) bad=(\d+)", r.stdout)
    if not m:
        return {"error": f"rc={r.returncode} " + (r.stdout + r.stderr)[-300:]}
    return {"parsed": int(m.group(1)), "bad": int(m.group(2)), "fails": [x[:500] for x in re.findall(r"SPMODEL-FAIL.*", r.stdout)[:5]]}
