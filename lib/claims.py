"""claims.py — per property: what the check claims (level text) and what it assumes."""
CLAIMS = {
 "C01": {"text": "Kernel-level conformance: each scanner / table / classifier the parser is built from is shown equal to a transliteration of the URL Standard for ALL byte strings up to the stated lengths (each length a separate query). The state-machine glue of parse_url_impl is NOT encoded; a change confined to one parser state is not detected by this check.",
         "note": "trusted: clang-14, ll2c, CBMC, the reference models in ref/ (validated against the real code on the repo corpora); bounds per obligation in the evidence. A NATIVE base case over the repository's corpora accompanies the solver obligations and is reported separately in the evidence (it is not a solver result): the 891 expectations of tests/wpt/urltestdata.json for both URL types (the pinned suite cannot build that binary).", "design_ref": "DESIGN.md §4.1"},
 "C10": {"text": "IPv4: the pure-decimal shortcut, the number parser, the ends-in-a-number checker, the serializer (all 2^32 addresses) and url::parse_ipv4 end-to-end are each shown equal to the Standard's algorithms for all inputs within the stated lengths.",
         "note": "parse_ipv4 under its caller's precondition; string-building queries use the SSO-only string bound (<= 15 bytes)", "design_ref": "DESIGN.md §4.10"},
 "C11": {"text": "All seven bitmaps x 256 byte values and the hex table are decided exhaustively by one symbolic query; every percent_encode overload, percent_decode and form_urlencoded_decode equal the Standard's algorithms for all byte strings up to the stated lengths; decode(encode(x)) == x within the bounds.",
         "note": "SSO-only string bound limits encoded outputs to 15 bytes per query", "design_ref": "DESIGN.md §4.11"},
 "C18": {"text": "Each per-ISA kernel (SSE2 / SSSE3 / AVX-512 variants of the host-delimiter and tab/newline scanners, scalar vs AVX-512 IPv4 shortcut) is translated from its own build of the real sources and shown to return the same value as the default build's kernel for ALL inputs up to 48 bytes, in one formula per length; the AVX-512 IPv4 kernels are additionally checked against the Standard.",
         "note": "whole-library digests across builds are not computed; development-checks and amalgamation sub-claims are separate obligations", "design_ref": "DESIGN.md §4.18"},
}
CLAIMS.update({
 "C07": {"text": "Inductive step instead of histories: from an ARBITRARY url_aggregator state satisfying the representation invariant INV (all bytes and all eight offsets symbolic, concrete buffer length), one call of the real operation with an arbitrary value re-establishes INV and the library's own validate(); INV itself implies (separate pure queries) that the offsets partition the href exactly. A native run shows every URL the real parser produces from the repository corpora satisfies INV.",
         "note": "std::string::_M_replace is replaced by a functional model (validated natively against libstdc++ on every run); strings are bounded by the 15-byte SSO buffer, so hrefs are <= 15 bytes; quick tier covers clear_*, set_username, set_port; the other setters are thorough-tier and reported undecided when the solver does not finish", "design_ref": "DESIGN.md §4.7"},
 "C03": {"text": "Per setter, one step from an arbitrary INV state with an arbitrary value: a setter that returns false leaves buffer, offsets and flags bit-identical; components the Standard's setter does not touch are unchanged; the touched slot equals a transliteration of the Standard's setter (userinfo / query / fragment encode sets, single leading delimiter removal then tab/newline removal, port digits / 65535 / default-port elision).",
         "note": "values <= 2-3 bytes, hrefs <= 15 bytes; pathname / protocol / host slots are covered by frame+INV only; 'resolves relative references' is outside (parser glue)", "design_ref": "DESIGN.md §4.3"},
 "C09": {"text": "The same step with ada::get_max_input_length() replaced by a symbolic limit L (any 32-bit value, pre-state within L): after every setter the href is <= L, and a failing setter leaves the object bit-identical.",
         "note": "parser exits under a limit are not encoded (whole parser); 'behaves as with no limit when the result fits' is checked through the slot conditions that also hold under the limit. A NATIVE base case over the repository's corpora accompanies the solver obligations and is reported separately in the evidence (it is not a solver result): the real parser under six limits around the sizes involved for every corpus input: no href longer than the limit is handed out, and a parse whose input and result fit succeeds.", "design_ref": "DESIGN.md §4.9"},
 "C19": {"text": "Pure implication INV => every record invariant of the statement (scheme lower-case; special => host (non-empty unless file) and '/'-path; null/empty host or file => no credentials/port; stored port != default, <= 65535, no leading zeros; opaque => no host; non-opaque path empty or '/...'), for arbitrary states up to 15 bytes, plus INV preserved by the setters (C07/C03 steps).",
         "note": "as C07", "design_ref": "DESIGN.md §4.19"},
 "C05": {"text": "Pure implication INV => href bytes are 0x20-0x7E with spaces only strictly inside an opaque path; every percent_encode overload produces only bytes outside its set plus %HH; INV preserved by the setters.",
         "note": "re-parsing the href through the full parser is outside the solver's reach (parser glue). A NATIVE base case over the repository's corpora accompanies the solver obligations and is reported separately in the evidence (it is not a solver result): parse(href) == href and the printable-ASCII rule for every corpus input with and without nine bases.", "design_ref": "DESIGN.md §4.5"},
 "C02": {"text": "For the encoded units, CBMC's pointer / bounds / shift / division / overflow instrumentation, 'noreturn call reached' (= an exception or abort would fire) and unwinding assertions (= termination within the bound) hold for ALL byte strings at each listed length, with inputs in exact-size heap objects so that a one-byte over-read is a pointer-check failure.",
         "note": "uninitialised reads and leaks are not modelled; heap blocks requested by the code have a fixed modelled size; standard-level UB that no sanitizer can confirm (out-of-bounds pointer formed but not dereferenced) is listed separately in the evidence", "design_ref": "DESIGN.md §4.2"},
})
CLAIMS.update({
 "C04": {"text": "Twin kernels in one formula: url::parse_ipv4 and url_aggregator::parse_ipv4 (separately written) return the same success flag, host kind, validity and host text for ALL inputs satisfying the caller's precondition, at each listed length.",
         "note": "whole-parse and lock-step setter equivalence of the two types is outside the solver's reach (parser glue, two string-heavy objects in one formula); hosts <= 10 bytes. A NATIVE base case over the repository's corpora accompanies the solver obligations and is reported separately in the evidence (it is not a solver result): url vs url_aggregator success, href, every getter/predicate and href size for every corpus input with and without nine bases.", "design_ref": "DESIGN.md §4.4"},
 "C06": {"text": "ASCII carve-out of domain-to-ASCII (all-ASCII input => exactly the lower-cased input) for ALL ASCII strings up to the stated lengths; the Punycode validator agrees with the decoder on ALL byte strings within the decided lengths (thorough tier; arithmetic-heavy, mostly undecided beyond 3 characters).",
         "note": "NOT covered: equality of the mapping / NFC / bidi tables with Unicode 17 (data, no reference offline), the non-ASCII pipeline (cut by a stub of idna::map)", "design_ref": "DESIGN.md §4.6"},
 "C08": {"text": "Whenever the single-pass validator try_can_parse_absolute_fast commits to true/false, a transliteration of the URL Standard's parser for that input class gives the same answer, for ALL byte strings at each listed length.",
         "note": "can_parse's limit arithmetic and the validation-only parser instantiation are not encoded (whole parser). A NATIVE base case over the repository's corpora accompanies the solver obligations and is reported separately in the evidence (it is not a solver result): can_parse == parse for every corpus input (with and without bases) under six limits around the sizes involved.", "design_ref": "DESIGN.md §4.8"},
 "C12": {"text": "form_urlencoded_decode equals the Standard's percent-decode with '+' as space on ALL byte strings at each length (malformed escapes literal); decoding the serializer's encoding (form set, ' ' -> '+') returns the original bytes; the real sort comparator orders names by UTF-16 code units.",
         "note": "the sort comparator is checked THROUGH libstdc++'s __insertion_sort instantiation (the lambda only exists inlined there) on two-element arrays: equal to UTF-16 code-unit order for all valid UTF-8 keys <= 2 bytes (<= 4 thorough); strict-weak-order laws are thorough-tier; list operations (append/set/remove, vector growth, std::stable_sort's merge passes) are not encoded; comparator counterexamples have no native replay (the instantiation is not an exported symbol)", "design_ref": "DESIGN.md §4.12"},
 "C13": {"text": "Thread-modular (rely/guarantee) check of the real ensure_tables(): one thread runs the real code with every atomic access hooked (orderings from the IR), against an environment that may take any protocol step at every scheduling point; the solver decides over all environment schedules that the thread itself obeys the protocol (single CAS UNINIT->IN_PROGRESS, stores only as owner, READY stored with release after all 19 pointers), that 'true' implies READY + all pointers + an acquire observation, that 'false' implies FAILED, and that at most one allocation happens.",
         "note": "inflate/CRC/new(nothrow) are nondeterministic stubs; the 1e9 spin loop is bounded by a fairness assumption on the environment (owner finishes within SPIN_FAIR observations); data-race freedom of the rest of the library and the max_input_length races are not decided here; schedule counterexamples are replayed on the translated code with the hooks", "design_ref": "DESIGN.md §4.13"},
 "C14": {"text": "Escape kernels behind the literal shortcut: escape_pattern_string / escape_regexp_string insert exactly one backslash before each special character and nothing else, for ALL ASCII strings at each length (so the generated ^escaped$ regex matches exactly the literal).",
         "note": "component fast_test/fast_match, compile() classification, the regex provider and top-level test/exec/match are not encoded (std::variant / std::regex / vectors)", "design_ref": "DESIGN.md §4.14"},
 "C15": {"text": "canonicalize_username/password/port/port-with-protocol/search/hash/ipv6_hostname (and protocol in the thorough tier) equal transliterations of the URL Standard's state-override semantics for ALL byte strings at each length; the 'simple' character classes that let hostname/pathname skip the URL parser are shown, for all 256 bytes, to contain only bytes the parser copies unchanged (no '%', '.', '\\', nothing needing encoding).",
         "note": "canonicalize_hostname/pathname slow paths (parse + setters), the constructor-string parser and url_pattern_init::process are not encoded", "design_ref": "DESIGN.md §4.15"},
 "C16": {"text": "On the ASCII path: to_ascii(x) is x lower-cased, idempotent and case-insensitive for ALL ASCII strings at each length; Punycode decode(encode(u)) == u is attempted in the thorough tier.",
         "note": "canonical-equivalence (NFC) and mapping-fold laws need the Unicode tables (224 KB DEFLATE blob): not encoded", "design_ref": "DESIGN.md §4.16"},
 "C17": {"text": "For an ARBITRARY valid handle (INV state) and for a failed handle: every C getter/predicate/components wrapper returns exactly the C++ member's value (same view into the buffer, same length) or NULL/0/false on failure; all mutators on a failed handle return false and leave it failed; an owned string of any length (incl. 0) is released exactly once by ada_free_owned_string (ghost allocation counter).",
         "note": "ada_parse*/ada_copy/ada_free life cycles, search-params / iterator / strings handles and idna owned strings are not encoded. A NATIVE base case over the repository's corpora accompanies the solver obligations and is reported separately in the evidence (it is not a solver result): ada_parse / ada_parse_with_base validity and href vs ada::parse for every corpus input with and without nine bases.", "design_ref": "DESIGN.md §4.17"},
})
NOT_APPLICABLE = {}


def _amend(pid, text="", note=""):
    if text:
        CLAIMS[pid]["text"] = CLAIMS[pid]["text"].rstrip() + " " + text
    if note:
        CLAIMS[pid]["note"] = CLAIMS[pid]["note"].rstrip() + " " + note


# --- additions of the second build round -------------------------------------------------------------------------------
_EDITORS = ("The internal editors the setters and the parser are built from (clear_hostname, clear_password, update_base_username/"
            "password/hostname/port/pathname, append_base_pathname, update_unencoded_base_hash, add_authority_slashes + "
            "delete_dash_dot, set_scheme) are each one more inductive step: under the precondition their callers establish "
            "(harness/step_pre.h) they preserve INV, put exactly the passed text into their slot, leave every other component "
            "unchanged and change the length by exactly the slot difference.")
_amend("C03", _EDITORS, "A NATIVE setter sweep (every corpus URL x ten setters x the WPT setter values: url vs url_aggregator, atomicity, validate(), INV) "
       "accompanies the solver obligations as a base case for what they cannot decide (set_host / set_hostname / set_href / ada::url) and is reported separately in the evidence.")
_amend("C19", _EDITORS, "The native setter sweep (see C03) is the base case for the host setters and ada::url.")
_amend("C07", _EDITORS)
_amend("C09", "", "A NATIVE setter sweep under limits L in {|href|, |unlimited result| - 1, |unlimited result|} (both URL types: href <= L, an operation whose unlimited result "
       "exceeds L fails and changes nothing, one whose value and result fit behaves as without a limit) accompanies the solver obligations.")
_amend("C12", "", "url_search_params::sort on 2..48 pairs (libstdc++ switches from insertion sort to merge / introsort above 15-16 elements, which the solver obligation "
       "cannot reach) is compared natively with a reference stable sort by UTF-16 code units; reported separately as a base case.")
_amend("C14", "", "NATIVE base case (reported separately): the repository's WPT corpus tests/wpt/urlpatterntestdata.json through the real API with std::regex: test() == exec().has_value(), "
       "expected_match reproduced, and every pattern compiled normally vs with all components forced to the regular-expression mode (hook ADA_URL_ADA_VERIF) over the cross product of "
       "patterns and inputs plus hand-picked (input, base) pairs.")
_amend("C15", "", "NATIVE base case (reported separately): construction outcome, component pattern strings and exactly-empty components of the WPT URLPattern corpus.")
_NFC = ("NFC kernels for EVERY content of the Unicode tables (the tables are symbolic arrays the library's table pointers are aimed at): sort_marks is the canonical ordering "
        "(stable sort of every run of non-starters by combining class) for all strings of N code points and all combining-class tables; the Hangul branch of would_compose/compose "
        "equals the arithmetic of UAX #15 (L+V -> LV, LV+T -> LVT, nothing else) for all pairs.")
_amend("C06", _NFC, "would_compose <=> compose and is_already_nfc <=> its three conditions were built and measured undecided (40 min, N = 2). NATIVE base case (reported separately): "
       "ada::idna::normalize vs Python unicodedata NFC on ~350 000 strings of assigned NFKC-stable code points (sound for Unicode 17 by the normalisation stability policy) and the WPT "
       "toascii.json / IdnaTestV2.json vectors through ada::unicode::to_ascii. Still NOT covered: equality of the IDNA mapping / bidi / joining tables with Unicode 17.")
_amend("C16", _NFC, "Canonical-equivalence beyond these kernels rests on the native NFC base case (see C06), reported separately.")

# --- third round ---------------------------------------------------------------------------------------------------------
_amend("C10", "checkers::verify_dns_length (has_valid_domain) equals the DNS length limits (non-empty, labels 1..63 with only a final empty label, 253 bytes or 254 with the root dot) "
       "for ALL byte strings at each listed length (<= 24 quick, <= 32 thorough) and rejects ALL strings of 255 / 256 bytes.",
       "the label bound 63 and the totals 253 / 254 need inputs of 64+ bytes: the nested find loop over a symbolic start offset is undecided at 40 bytes within 120 s and at 64 bytes within 300 s even for the "
       "two-dot input class (dns_len2_*, thorough-tier attempts, reported undecided when they do not finish) - a change of the constant 63 is NOT detected by the quick tier.")
_amend("C17", "", "A NATIVE list-model base case (reported separately, not a solver result) drives an ada_c search-params handle in lock-step with the C++ object and the Standard's list model over "
       "6000 histories (append/set/remove/remove_value/has/has_value/get/get_all/sort/reset/to_string/entries iterator).")
_amend("C12", "", "The native list-model base case also resets with unrelated init strings ('', '?', '&', 'x=1&&y&=z') and drives the C API handle in lock-step.")
