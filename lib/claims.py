"""claims.py — per property: what the check claims (level text) and what it assumes."""
CLAIMS = {
 "C01": {"text": "Kernel-level conformance: each scanner / table / classifier the parser is built from is shown equal to a transliteration of the URL Standard for ALL byte strings up to the stated lengths (each length a separate query). The state-machine glue of parse_url_impl is NOT encoded; a change confined to one parser state is not detected by this check.",
         "note": "trusted: clang-14, ll2c, CBMC, the reference models in ref/ (validated against the real code on the repo corpora); bounds per obligation in the evidence", "design_ref": "DESIGN.md §4.1"},
 "C10": {"text": "IPv4: the pure-decimal shortcut, the number parser, the ends-in-a-number checker, the serializer (all 2^32 addresses) and url::parse_ipv4 end-to-end are each shown equal to the Standard's algorithms for all inputs within the stated lengths.",
         "note": "parse_ipv4 under its caller's precondition; string-building queries use the SSO-only string bound (<= 15 bytes)", "design_ref": "DESIGN.md §4.10"},
 "C11": {"text": "All seven bitmaps x 256 byte values and the hex table are decided exhaustively by one symbolic query; every percent_encode overload, percent_decode and form_urlencoded_decode equal the Standard's algorithms for all byte strings up to the stated lengths; decode(encode(x)) == x within the bounds.",
         "note": "SSO-only string bound limits encoded outputs to 15 bytes per query", "design_ref": "DESIGN.md §4.11"},
 "C18": {"text": "Each per-ISA kernel (SSE2 / SSSE3 / AVX-512 variants of the host-delimiter and tab/newline scanners, scalar vs AVX-512 IPv4 shortcut) is translated from its own build of the real sources and shown to return the same value as the default build's kernel for ALL inputs up to 48 bytes, in one formula per length; the AVX-512 IPv4 kernels are additionally checked against the Standard.",
         "note": "whole-library digests across builds are not computed; development-checks and amalgamation sub-claims are separate obligations", "design_ref": "DESIGN.md §4.18"},
}
NOT_APPLICABLE = {}
