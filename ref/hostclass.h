/* ref/hostclass.h — code point classes of the URL Standard used by host parsing */
#ifndef REF_HOSTCLASS_H
#define REF_HOSTCLASS_H
#include <stdint.h>
/* forbidden host code point: U+0000 NULL, U+0009 TAB, U+000A LF, U+000D CR, U+0020 SPACE, U+0023 (#), U+002F (/),
 * U+003A (:), U+003C (<), U+003E (>), U+003F (?), U+0040 (@), U+005B ([), U+005C (\), U+005D (]), U+005E (^), U+007C (|) */
static int ref_forbidden_host(uint8_t c) {
  return c == 0x00 || c == 0x09 || c == 0x0A || c == 0x0D || c == 0x20 || c == 0x23 || c == 0x2F || c == 0x3A ||
         c == 0x3C || c == 0x3E || c == 0x3F || c == 0x40 || c == 0x5B || c == 0x5C || c == 0x5D || c == 0x5E || c == 0x7C;
}
/* forbidden domain code point: forbidden host code point, C0 control, U+0025 (%), U+007F DELETE */
static int ref_forbidden_domain(uint8_t c) { return ref_forbidden_host(c) || c <= 0x1F || c == 0x25 || c == 0x7F; }
/* a byte that can occur in the ASCII domain handed to the IPv4 stage: ASCII, not forbidden, not upper case */
static int ref_domain_byte_ok(uint8_t c) { return c < 0x80 && !ref_forbidden_domain(c) && !(c >= 'A' && c <= 'Z'); }
#endif
