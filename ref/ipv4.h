/* ref/ipv4.h — WHATWG URL Standard, "IPv4 parser", "IPv4 number parser", "ends in a number
 * checker" and "IPv4 serializer", transliterated step by step (https://url.spec.whatwg.org/#concept-ipv4-parser).
 * Mathematical integers of the Standard are modelled by saturation at 2^40 (anything >= 2^32 is
 * rejected by the parser anyway). */
#ifndef REF_IPV4_H
#define REF_IPV4_H
#include <stdint.h>
#define REF_IPV4_FAIL (1ULL << 32)
#define REF_SAT (1ULL << 40)

/* The three algorithms below are written as ONE left-to-right pass with constant loop bounds (so
 * that the model checker can bound them syntactically); `struct ref_part` is the IPv4 number
 * parser's state for the part currently being read. */
struct ref_part { unsigned len; unsigned R; uint64_t v; int fail; int all_digits; };
static void ref_part_reset(struct ref_part* p) { p->len = 0; p->R = 10; p->v = 0; p->fail = 0; p->all_digits = 1; }
static void ref_part_feed(struct ref_part* p, uint8_t c) {
  unsigned d = 99;
  if (c >= '0' && c <= '9') d = c - '0';
  else if (c >= 'a' && c <= 'f') d = 10 + c - 'a';
  else if (c >= 'A' && c <= 'F') d = 10 + c - 'A';
  if (c < '0' || c > '9') p->all_digits = 0;
  if (p->len == 0) {                                   /* first char: R = 10 unless a prefix follows */
    if (d >= 10) p->fail = 1; else p->v = d;
  } else if (p->len == 1 && p->v == 0 && p->R == 10 && !p->fail) {  /* "0?" : 4./5. of the number parser */
    if (c == 'x' || c == 'X') { p->R = 16; p->v = 0; }
    else { p->R = 8; if (d >= 8) p->fail = 1; else p->v = d; }
  } else {                                             /* 7./8. radix-R digits */
    if (d >= p->R) p->fail = 1;
    else { p->v = p->v * p->R + d; if (p->v > REF_SAT) p->v = REF_SAT; }
  }
  p->len++;
}
/* result of the IPv4 number parser for the finished part: value, or REF_SAT+1 = failure */
static uint64_t ref_part_value(const struct ref_part* p) {
  if (p->len == 0) return REF_SAT + 1;                 /* 1. empty string -> failure */
  if (p->fail) return REF_SAT + 1;
  return p->v;                                         /* "0", "0x" -> 0 (step 6) */
}

/* IPv4 parser: returns the address or REF_IPV4_FAIL.  n must be a compile-time constant <= 64. */
static uint64_t ref_ipv4_parse(const uint8_t* s, uint64_t n) {
  uint64_t end = n;
  int had_dot = 0;
  for (uint64_t i = 0; i < n; i++) if (s[i] == '.') had_dot = 1;
  /* 2. if the last part is the empty string: if parts' size > 1, remove it */
  if (n > 0 && s[n - 1] == '.' && had_dot) end = n - 1;
  if (n == 0) return REF_IPV4_FAIL;                    /* single empty part -> number parser fails */
  uint64_t numbers[4] = {0, 0, 0, 0}; unsigned k = 0; int fail = 0;
  struct ref_part p; ref_part_reset(&p);
  for (uint64_t i = 0; i < n; i++) {
    if (i < end) {
      if (s[i] == '.') {
        uint64_t v = ref_part_value(&p);
        if (v > REF_SAT) fail = 1;                     /* 5.2 */
        if (k < 4) numbers[k] = v;
        k++; ref_part_reset(&p);
      } else ref_part_feed(&p, s[i]);
    }
  }
  { uint64_t v = ref_part_value(&p); if (v > REF_SAT) fail = 1; if (k < 4) numbers[k] = v; k++; }
  if (k > 4) return REF_IPV4_FAIL;                     /* 3. more than four parts */
  if (fail) return REF_IPV4_FAIL;
  for (unsigned i = 0; i < 3; i++) if (i + 1 < k && numbers[i] > 255) return REF_IPV4_FAIL;   /* 7 */
  uint64_t limit = 1ULL << (8 * (5 - k));              /* 8. last >= 256^(5-size) -> failure */
  if (numbers[k - 1] >= limit) return REF_IPV4_FAIL;
  uint64_t ipv4 = numbers[k - 1];                      /* 9..12 */
  for (unsigned i = 0; i < 3; i++) if (i + 1 < k) ipv4 += numbers[i] << (8 * (3 - i));
  return ipv4;
}

/* ends-in-a-number checker */
static int ref_ends_in_number(const uint8_t* s, uint64_t n) {
  uint64_t end = n;
  int had_dot = 0;
  for (uint64_t i = 0; i < n; i++) if (s[i] == '.') had_dot = 1;
  if (n == 0) return 0;                                /* single empty part */
  if (s[n - 1] == '.') { if (!had_dot) return 0; end = n - 1; }   /* 2. */
  struct ref_part p; ref_part_reset(&p);               /* 3. last = last part */
  for (uint64_t i = 0; i < n; i++) {
    if (i < end) { if (s[i] == '.') ref_part_reset(&p); else ref_part_feed(&p, s[i]); }
  }
  if (p.len > 0 && p.all_digits) return 1;             /* 4. */
  return ref_part_value(&p) <= REF_SAT;                /* 5. */
}

/* IPv4 serializer: dotted decimal into out (>=15 bytes), returns length */
static uint64_t ref_ipv4_serialize(uint64_t addr, uint8_t* out) {
  uint64_t k = 0;
  for (int i = 3; i >= 0; i--) {
    unsigned b = (unsigned)((addr >> (8 * i)) & 255);
    if (b >= 100) out[k++] = (uint8_t)('0' + b / 100);
    if (b >= 10) out[k++] = (uint8_t)('0' + (b / 10) % 10);
    out[k++] = (uint8_t)('0' + b % 10);
    if (i) out[k++] = '.';
  }
  return k;
}
#endif
