/* ref/canparse.h — validity of an absolute special (non-file) URL without base, transliterated from the URL Standard's
 * basic URL parser for the class of inputs the fast validator may decide; returns 1 valid, 0 invalid (parse returns
 * failure), 2 = outside the modelled class (credentials, '%', IPv6, non-ASCII, "xn--", non-special or file scheme).  n is a compile-time constant (REF_CP_MAX bounds every loop). */
#ifndef REF_CANPARSE_H
#define REF_CANPARSE_H
#include "ipv4.h"
#include "hostclass.h"
#ifndef REF_CP_MAX
#define REF_CP_MAX 24
#endif
static int ref_cp_alnum_plus(uint8_t c) { return (c >= '0' && c <= '9') || ((c | 0x20) >= 'a' && (c | 0x20) <= 'z') || c == '+' || c == '-' || c == '.'; }
static int ref_can_parse_special(const uint8_t* s0, uint64_t n0) {
  uint8_t s[REF_CP_MAX]; uint64_t a = 0, e = n0;
  /* remove leading and trailing C0 control or space */
  for (unsigned i = 0; i < REF_CP_MAX; i++) if (a < e && s0[a] <= 0x20) a++;
  for (unsigned i = 0; i < REF_CP_MAX; i++) if (e > a && s0[e - 1] <= 0x20) e--;
  /* remove all ASCII tab or newline */
  uint64_t n = 0;
  for (unsigned i = 0; i < REF_CP_MAX; i++) s[i] = 0;
  for (unsigned i = 0; i < REF_CP_MAX; i++) if (i >= a && i < e) { uint8_t c = s0[i]; if (!(c == 0x09 || c == 0x0a || c == 0x0d)) { s[n % REF_CP_MAX] = c; n++; } }
  if (n == 0) return 0;                                   /* no scheme, no base: failure */
  /* scheme start / scheme state */
  if (!(((s[0] | 0x20) >= 'a') && ((s[0] | 0x20) <= 'z'))) return 0;
  uint64_t colon = n; int bad = 0;
  for (unsigned i = 1; i < REF_CP_MAX; i++) if (i < n && colon == n && !bad) { if (s[i] == ':') colon = i; else if (!ref_cp_alnum_plus(s[i])) bad = 1; }
  if (bad || colon == n) return 0;                        /* no scheme and no base: failure */
  uint8_t sc[6] = {0, 0, 0, 0, 0, 0};
  if (colon > 5) return 2;
  for (unsigned i = 0; i < 5; i++) if (i < colon) sc[i] = s[i] | 0x20;
  int special = (colon == 4 && sc[0] == 'h' && sc[1] == 't' && sc[2] == 't' && sc[3] == 'p') ||
                (colon == 5 && sc[0] == 'h' && sc[1] == 't' && sc[2] == 't' && sc[3] == 'p' && sc[4] == 's') ||
                (colon == 2 && sc[0] == 'w' && sc[1] == 's') || (colon == 3 && sc[0] == 'w' && sc[1] == 's' && sc[2] == 's') ||
                (colon == 3 && sc[0] == 'f' && sc[1] == 't' && sc[2] == 'p');
  if (!special) return 2;
  /* special authority (ignore) slashes state: skip every '/' and '\' */
  uint64_t p = colon + 1;
  for (unsigned i = 0; i < REF_CP_MAX; i++) if (p < n && (s[p] == '/' || s[p] == '\\')) p++;
  /* authority state: up to '/', '?', '#', '\' or EOF */
  uint64_t ae = n; 
  for (unsigned i = REF_CP_MAX; i-- > 0;) if (i >= p && i < n && (s[i] == '/' || s[i] == '?' || s[i] == '#' || s[i] == '\\')) ae = i;
  for (unsigned i = 0; i < REF_CP_MAX; i++) if (i >= p && i < ae && (s[i] == '@' || s[i] == '%' || s[i] >= 0x80)) return 2;
  if (p < ae && s[p] == '[') return 2;                    /* IPv6 literal: outside the modelled class */
  /* a '[' anywhere else in the authority makes the host (or the port) invalid in every case */
  for (unsigned i = 0; i < REF_CP_MAX; i++) if (i > p && i < ae && s[i] == '[') return 0;
  /* host state: up to the first ':' */
  uint64_t he = ae;
  for (unsigned i = REF_CP_MAX; i-- > 0;) if (i >= p && i < ae && s[i] == ':') he = i;
  if (he == p) return 0;                                  /* empty host in a special URL: failure */
  uint8_t h[REF_CP_MAX]; uint64_t hl = he - p;
  for (unsigned i = 0; i < REF_CP_MAX; i++) { uint8_t c = (i < hl) ? s[(p + i) % REF_CP_MAX] : 0; h[i] = (c >= 'A' && c <= 'Z') ? (c | 0x20) : c; }
  for (unsigned i = 0; i + 3 < REF_CP_MAX; i++) if (i + 3 < hl && h[i] == 'x' && h[i + 1] == 'n' && h[i + 2] == '-' && h[i + 3] == '-') return 2;
  for (unsigned i = 0; i < REF_CP_MAX; i++) if (i < hl && ref_forbidden_domain(h[i])) return 0;   /* domain to ASCII result with a forbidden code point: failure */
  if (ref_ends_in_number(h, hl) && ref_ipv4_parse(h, hl) == REF_IPV4_FAIL) return 0;
  /* port state */
  if (he < ae) {
    uint32_t v = 0;
    for (unsigned i = 0; i < REF_CP_MAX; i++) if (i > he && i < ae) { uint8_t c = s[i]; if (c < '0' || c > '9') return 0; v = v * 10 + (c - '0'); if (v > 65535) return 0; }
  }
  return 1;
}
#endif
