/* ref/ipv6.h — WHATWG URL Standard, IPv6 serializer (https://url.spec.whatwg.org/#concept-ipv6-serializer),
 * written with constant loop bounds. */
#ifndef REF_IPV6_H
#define REF_IPV6_H
#include <stdint.h>
/* 2./3.: compress = index of the FIRST longest sequence of 0 pieces of length > 1, else none (8) */
static void ref_ipv6_compress(const uint16_t a[8], unsigned* compress, unsigned* length) {
  unsigned best = 8, bestlen = 0, cur = 8, curlen = 0;
  for (unsigned i = 0; i < 8; i++) {
    if (a[i] == 0) { if (curlen == 0) cur = i; curlen++; if (curlen > bestlen) { best = cur; bestlen = curlen; } }
    else curlen = 0;
  }
  if (bestlen < 2) { best = 8; bestlen = 0; }
  *compress = best; *length = bestlen;
}
static uint8_t ref_hexl(unsigned v) { return (uint8_t)(v < 10 ? '0' + v : 'a' + (v - 10)); }
/* serializes with brackets (as the host serializer does); out >= 41 bytes; returns length */
static uint64_t ref_ipv6_serialize(const uint16_t a[8], uint8_t* out) {
  unsigned compress, clen; ref_ipv6_compress(a, &compress, &clen);
  uint64_t k = 0; int ignore0 = 0;
  out[k++] = '[';
  for (unsigned i = 0; i < 8; i++) {
    if (ignore0 && a[i] == 0) continue;             /* 5.1 */
    if (ignore0) ignore0 = 0;                       /* 5.2 */
    if (compress == i) {                            /* 5.3 */
      out[k++] = ':'; if (i == 0) out[k++] = ':';
      ignore0 = 1; continue;
    }
    unsigned v = a[i];                              /* 5.4 lowercase hex, shortest */
    if (v >= 0x1000) out[k++] = ref_hexl((v >> 12) & 15);
    if (v >= 0x100) out[k++] = ref_hexl((v >> 8) & 15);
    if (v >= 0x10) out[k++] = ref_hexl((v >> 4) & 15);
    out[k++] = ref_hexl(v & 15);
    if (i != 7) out[k++] = ':';                     /* 5.5 */
  }
  out[k++] = ']';
  return k;
}
#endif

/* ---- WHATWG URL Standard, IPv6 parser (https://url.spec.whatwg.org/#concept-ipv6-parser), transliterated.
 * Input s[0,n) is the text between the brackets; n <= REF_V6_MAX.  Returns 1 and fills a[8], or 0 = failure.
 * Every loop has a constant bound (the pointer is symbolic). */
#ifndef REF_V6_MAX
#define REF_V6_MAX 16
#endif
static int ref_v6_hex(uint8_t c) { return (c >= '0' && c <= '9') || ((c | 0x20) >= 'a' && (c | 0x20) <= 'f'); }
static unsigned ref_v6_hexval(uint8_t c) { return c <= '9' ? c - '0' : (c | 0x20) - 'a' + 10; }
#define V6C(p) ((p) < n ? s[(p) % REF_V6_MAX] : 0x100)   /* 0x100 = EOF code point */
static int ref_ipv6_parse(const uint8_t* s, uint64_t n, uint16_t a[8]) {
  for (unsigned i = 0; i < 8; i++) a[i] = 0;                               /* 1 */
  unsigned piece = 0; int compress = -1; uint64_t p = 0;                    /* 2-4 */
  if (V6C(p) == ':') {                                                      /* 5 */
    if (V6C(p + 1) != ':') return 0;
    p += 2; piece++; compress = (int)piece;
  }
  for (unsigned it = 0; it < REF_V6_MAX + 1; it++) {                        /* 6. while c is not EOF */
    if (V6C(p) == 0x100) break;
    if (piece == 8) return 0;                                               /* 6.1 */
    if (V6C(p) == ':') {                                                    /* 6.2 */
      if (compress != -1) return 0;
      p++; piece++; compress = (int)piece; continue;
    }
    unsigned value = 0, length = 0;                                         /* 6.3-6.4 */
    for (unsigned k = 0; k < 4; k++) if (length == k && V6C(p) != 0x100 && ref_v6_hex((uint8_t)V6C(p))) { value = value * 16 + ref_v6_hexval((uint8_t)V6C(p)); p++; length++; }
    if (V6C(p) == '.') {                                                    /* 6.5 IPv4-in-IPv6 */
      if (length == 0) return 0;
      p -= length;
      if (piece > 6) return 0;
      unsigned seen = 0;
      for (unsigned q = 0; q < 5; q++) {                                    /* while c is not EOF (at most 4 numbers + 1) */
        if (V6C(p) == 0x100) break;
        if (seen > 0) { if (V6C(p) == '.' && seen < 4) p++; else return 0; }
        if (!(V6C(p) >= '0' && V6C(p) <= '9')) return 0;
        int v4 = -1;
        for (unsigned k = 0; k < 4; k++) if (V6C(p) >= '0' && V6C(p) <= '9') {
          unsigned num = V6C(p) - '0';
          if (v4 == -1) v4 = (int)num; else if (v4 == 0) return 0; else v4 = v4 * 10 + (int)num;
          if (v4 > 255) return 0;
          p++;
        }
        if (V6C(p) >= '0' && V6C(p) <= '9') return 0;                       /* a fifth digit would exceed 255 anyway */
        a[piece] = (uint16_t)(a[piece] * 0x100 + (unsigned)v4);
        seen++;
        if (seen == 2 || seen == 4) piece++;
      }
      if (seen != 4) return 0;
      break;
    } else if (V6C(p) == ':') {                                             /* 6.6 */
      p++;
      if (V6C(p) == 0x100) return 0;
    } else if (V6C(p) != 0x100) return 0;                                   /* 6.7 */
    a[piece] = (uint16_t)value; piece++;                                    /* 6.8-6.9 */
  }
  if (V6C(p) != 0x100) return 0;                                            /* loop bound exhausted: cannot happen for n <= REF_V6_MAX */
  if (compress != -1) {                                                     /* 7 */
    unsigned swaps = piece - (unsigned)compress; piece = 7;
    for (unsigned k = 0; k < 8; k++) if (piece != 0 && swaps > 0) {
      uint16_t t = a[piece]; a[piece] = a[(unsigned)compress + swaps - 1]; a[(unsigned)compress + swaps - 1] = t;
      piece--; swaps--;
    }
  } else if (piece != 8) return 0;                                          /* 8 */
  return 1;
}
