/* ref/ipv6.h — WHATWG URL Standard, IPv6 serializer (https://url.spec.whatwg.org/#concept-ipv6-serializer),
 * written with constant loop bounds. */
#ifndef REF_IPV6_H
#define REF_IPV6_H
#include <stdint.h>
/* 2./3.: compress = index of the FIRST longest sequence of 0 pieces of length > 1, else none (8) */
static void ref_ipv6_compress(const uint16_t a[8], unsigned* compress, unsigned* length) {
  unsigned best = 8, bestlen = 0, cur = 8, curlen = 0;
  for (unsigned i = 0; i < 8; i++) {
    if (a[i] == 0) { if (curlen == 0) cur = i; curlen++; if (curlen > bestlen) { best = cur; bestlen = curlen; } }
    else curlen = 0;
  }
  if (bestlen < 2) { best = 8; bestlen = 0; }
  *compress = best; *length = bestlen;
}
static uint8_t ref_hexl(unsigned v) { return (uint8_t)(v < 10 ? '0' + v : 'a' + (v - 10)); }
/* serializes with brackets (as the host serializer does); out >= 41 bytes; returns length */
static uint64_t ref_ipv6_serialize(const uint16_t a[8], uint8_t* out) {
  unsigned compress, clen; ref_ipv6_compress(a, &compress, &clen);
  uint64_t k = 0; int ignore0 = 0;
  out[k++] = '[';
  for (unsigned i = 0; i < 8; i++) {
    if (ignore0 && a[i] == 0) continue;             /* 5.1 */
    if (ignore0) ignore0 = 0;                       /* 5.2 */
    if (compress == i) {                            /* 5.3 */
      out[k++] = ':'; if (i == 0) out[k++] = ':';
      ignore0 = 1; continue;
    }
    unsigned v = a[i];                              /* 5.4 lowercase hex, shortest */
    if (v >= 0x1000) out[k++] = ref_hexl((v >> 12) & 15);
    if (v >= 0x100) out[k++] = ref_hexl((v >> 8) & 15);
    if (v >= 0x10) out[k++] = ref_hexl((v >> 4) & 15);
    out[k++] = ref_hexl(v & 15);
    if (i != 7) out[k++] = ':';                     /* 5.5 */
  }
  out[k++] = ']';
  return k;
}
#endif
