/* ref/pct.h — percent-encode sets of the WHATWG URL Standard (https://url.spec.whatwg.org/#percent-encoded-bytes)
 * written as the Standard defines them (each set = previous set + listed code points), and the
 * percent-encode / percent-decode algorithms on bytes. */
#ifndef REF_PCT_H
#define REF_PCT_H
#include <stdint.h>
enum { SET_C0 = 0, SET_FRAGMENT = 1, SET_QUERY = 2, SET_SPECIAL_QUERY = 3, SET_PATH = 4, SET_USERINFO = 5, SET_FORM = 6 };
static int ref_in_c0(uint8_t c) { return c <= 0x1F || c > 0x7E; }                 /* C0 controls and all > U+007E */
static int ref_in_fragment(uint8_t c) { return ref_in_c0(c) || c == 0x20 || c == 0x22 || c == 0x3C || c == 0x3E || c == 0x60; }
static int ref_in_query(uint8_t c) { return ref_in_c0(c) || c == 0x20 || c == 0x22 || c == 0x23 || c == 0x3C || c == 0x3E; }
static int ref_in_special_query(uint8_t c) { return ref_in_query(c) || c == 0x27; }
static int ref_in_path(uint8_t c) { return ref_in_query(c) || c == 0x3F || c == 0x5E || c == 0x60 || c == 0x7B || c == 0x7D; }
static int ref_in_userinfo(uint8_t c) { return ref_in_path(c) || c == 0x2F || c == 0x3A || c == 0x3B || c == 0x3D || c == 0x40 || (c >= 0x5B && c <= 0x5D) || c == 0x7C; }
static int ref_in_component(uint8_t c) { return ref_in_userinfo(c) || (c >= 0x24 && c <= 0x26) || c == 0x2B || c == 0x2C; }
/* application/x-www-form-urlencoded percent-encode set = component set + ! ' ( ) ~ .  The form serializer runs with
 * spaceAsPlus = true: U+0020 is emitted as '+', never as %20; the library realises that as "leave 0x20 out of the
 * bitmap, then replace ' ' by '+'" (url_search_params::to_string), so the bitmap is the Standard's set minus 0x20. */
static int ref_in_form(uint8_t c) { return c != 0x20 && (ref_in_component(c) || c == 0x21 || (c >= 0x27 && c <= 0x29) || c == 0x7E); }
static int ref_in_set(unsigned set, uint8_t c) {
  switch (set) {
    case SET_C0: return ref_in_c0(c);
    case SET_FRAGMENT: return ref_in_fragment(c);
    case SET_QUERY: return ref_in_query(c);
    case SET_SPECIAL_QUERY: return ref_in_special_query(c);
    case SET_PATH: return ref_in_path(c);
    case SET_USERINFO: return ref_in_userinfo(c);
    default: return ref_in_form(c);
  }
}
static uint8_t ref_hex_upper(unsigned v) { return (uint8_t)(v < 10 ? '0' + v : 'A' + (v - 10)); }
/* percent-encode after encoding: every byte in the set becomes %HH (upper-case), others verbatim.
 * n <= REF_PCT_MAX; out must hold 3*n bytes.  Constant-bound loop. */
#ifndef REF_PCT_MAX
#define REF_PCT_MAX 16
#endif
static uint64_t ref_percent_encode(const uint8_t* s, uint64_t n, unsigned set, uint8_t* out) {
  uint64_t k = 0;
  for (uint64_t i = 0; i < REF_PCT_MAX; i++) {
    if (i < n) {
      uint8_t c = s[i];
      if (ref_in_set(set, c)) { out[k++] = '%'; out[k++] = ref_hex_upper(c >> 4); out[k++] = ref_hex_upper(c & 15); }
      else out[k++] = c;
    }
  }
  return k;
}
static int ref_is_hex(uint8_t c) { return (c >= '0' && c <= '9') || (c >= 'a' && c <= 'f') || (c >= 'A' && c <= 'F'); }
static unsigned ref_hex_val(uint8_t c) { return c <= '9' ? c - '0' : (c | 0x20) - 'a' + 10; }
/* percent-decode (https://url.spec.whatwg.org/#percent-decode): malformed escapes are literal text.
 * plus_to_space selects application/x-www-form-urlencoded decoding. */
static uint64_t ref_percent_decode(const uint8_t* s, uint64_t n, int plus_to_space, uint8_t* out) {
  uint64_t k = 0; uint64_t skip = 0;
  for (uint64_t i = 0; i < REF_PCT_MAX; i++) {
    if (i < n) {
      if (skip) { skip--; }
      else {
        uint8_t c = s[i];
        if (c == '%' && i + 2 < n && ref_is_hex(s[i + 1]) && ref_is_hex(s[i + 2])) { out[k++] = (uint8_t)(ref_hex_val(s[i + 1]) * 16 + ref_hex_val(s[i + 2])); skip = 2; }
        else if (c == '+' && plus_to_space) out[k++] = ' ';
        else out[k++] = c;
      }
    }
  }
  return k;
}
#endif
