// ll2c: LLVM-14 IR -> C (for CBMC). Spike prototype.
// usage: ll2c in.ll root1,root2,... [--stub name,...] > out.c
#include <llvm/IR/Module.h>
#include <llvm/IR/LLVMContext.h>
#include <llvm/IR/Instructions.h>
#include <llvm/IR/IntrinsicInst.h>
#include <llvm/IR/IntrinsicsX86.h>
#include <functional>
#include <llvm/IR/Constants.h>
#include <llvm/IR/DataLayout.h>
#include <llvm/IR/Operator.h>
#include <llvm/IR/CFG.h>
#include <llvm/ADT/PostOrderIterator.h>
#include <llvm/IR/GetElementPtrTypeIterator.h>
#include <llvm/IRReader/IRReader.h>
#include <llvm/Support/SourceMgr.h>
#include <llvm/Support/raw_ostream.h>
#include <map>
#include <set>
#include <deque>
#include <sstream>
#include <string>
#include <vector>
#include <cstdio>
#include <cstdlib>

using namespace llvm;

static const DataLayout* DL;
static std::set<std::string> stubs;
static bool check_flags = false;  // assert nsw/nuw/inbounds-derived facts
static std::string prefix;         // --prefix: prepended to every emitted definition (two units in one TU)

[[noreturn]] static void die(const std::string& m) {
  fprintf(stderr, "ll2c: unsupported: %s\n", m.c_str());
  exit(2);
}
static std::string str(const Value* v) {
  std::string s; raw_string_ostream os(s); v->print(os); return s;
}
static std::string tstr(Type* t) {
  std::string s; raw_string_ostream os(s); t->print(os); return s;
}
static std::string sanitize(StringRef n) {
  std::string s;
  for (char c : n) s += (isalnum((unsigned char)c) || c == '_') ? c : '_';
  return s;
}
static std::map<const GlobalValue*, std::string> gnames;
static std::string gname(const GlobalValue* g) {
  auto it = gnames.find(g);
  if (it != gnames.end()) return it->second;
  std::string n = sanitize(g->getName());
  if (isa<Function>(g)) {
    // keep external names recognisable; prefix defined ones
    if (!cast<Function>(g)->isDeclaration() && !stubs.count(g->getName().str())) n = prefix + "F_" + n; else n = "X_" + n;
  } else n = prefix + "G_" + n;
  if (n.size() > 600) { n = n.substr(0, 580) + "_h" + std::to_string(std::hash<std::string>()(g->getName().str()) % 1000000); }
  return gnames[g] = n;
}

// ---- types ----
static std::map<Type*, std::string> aggnames;
static std::vector<std::string> aggdefs, aggasserts;
static std::string ctype(Type* t);
// LLVM lowers a C++ union to a struct of its largest member (+ padding).  A union made only of integers
// and integer arrays (libstdc++'s SSO buffer: union { char buf[16]; size_t capacity; } -> { i64, [8 x i8] })
// is accessed through char pointers with symbolic offsets; we emit it as a plain byte array so that
// CBMC sees array indexing instead of a byte_update on the enclosing object.
static bool is_byte_union(Type* t) {
  auto* st = dyn_cast<StructType>(t);
  if (!st || st->isLiteral() || !st->getName().startswith("union.") || st->getNumElements() == 0) return false;
  for (unsigned i = 0; i < st->getNumElements(); i++) {
    Type* e = st->getElementType(i);
    if (e->isIntegerTy()) continue;
    if (e->isArrayTy() && e->getArrayElementType()->isIntegerTy()) continue;
    return false;
  }
  return true;
}
// std::array<T,N> and similar single-member wrappers: layout-identical to their only member.  Objects of
// such a type are emitted as the member (a plain C array is a *root* array object for CBMC, so symbolic
// indexing stays an array index instead of a byte_extract on a struct).
static Type* unwrap(Type* t) {
  while (auto* st = dyn_cast<StructType>(t)) {
    if (st->getNumElements() != 1 || is_byte_union(t) || st->isPacked()) break;
    Type* e = st->getElementType(0);
    if (!e->isSized() || DL->getTypeAllocSize(e) != DL->getTypeAllocSize(t)) break;
    t = e;
  }
  return t;
}
static const Constant* unwrapc(const Constant* c) {
  while (auto* st = dyn_cast<StructType>(c->getType())) {
    if (unwrap(st) == st) break;
    if (isa<ConstantAggregateZero>(c) || isa<UndefValue>(c)) return Constant::getNullValue(unwrap(st));
    c = c->getAggregateElement(0u);
  }
  return c;
}
static std::string aggtype(Type* t) {
  auto it = aggnames.find(t);
  if (it != aggnames.end()) return it->second;
  std::string n = prefix + "agg" + std::to_string(aggnames.size());
  aggnames[t] = n;
  std::ostringstream d;
  d << "typedef struct " << n << " {";
  if (is_byte_union(t)) {
    d << " uint8_t e[" << DL->getTypeAllocSize(t) << "];";
  } else if (auto* st = dyn_cast<StructType>(t)) {
    for (unsigned i = 0; i < st->getNumElements(); i++) {
      if (is_byte_union(st->getElementType(i))) d << " uint8_t f" << i << "[" << DL->getTypeAllocSize(st->getElementType(i)) << "];";
      else d << " " << ctype(st->getElementType(i)) << " f" << i << ";";
    }
    if (st->getNumElements() == 0) d << " char dummy;";
  } else if (auto* at = dyn_cast<ArrayType>(t)) {
    d << " " << ctype(at->getElementType()) << " e[" << std::max<uint64_t>(1, at->getNumElements()) << "];";
  } else if (auto* vt = dyn_cast<FixedVectorType>(t)) {
    d << " " << ctype(vt->getElementType()) << " e[" << vt->getNumElements() << "];";
  } else die("aggtype " + tstr(t));
  d << " } " << ((isa<StructType>(t) && cast<StructType>(t)->isPacked()) ? "__attribute__((packed)) " : "") << n << ";";
  if (auto* st2 = dyn_cast<StructType>(t); st2 && !is_byte_union(t)) {
    auto* sl = DL->getStructLayout(st2);
    for (unsigned i = 0; i < st2->getNumElements(); i++) { std::ostringstream sa; sa << "_Static_assert(__builtin_offsetof(" << n << ",f" << i << ")==" << sl->getElementOffset(i) << ",\"field layout " << n << "\");"; aggasserts.push_back(sa.str()); }
  }
  if (!t->isVectorTy()) { std::ostringstream sa; sa << "_Static_assert(sizeof(" << n << ")==" << DL->getTypeAllocSize(t) << ",\"layout " << n << "\");"; aggasserts.push_back(sa.str()); }
  aggdefs.push_back(d.str());
  return n;
}
static std::string inttype(unsigned bits, bool sign = false) {
  std::string u = sign ? "" : "u";
  if (bits <= 8) return u + "int8_t";
  if (bits <= 16) return u + "int16_t";
  if (bits <= 32) return u + "int32_t";
  if (bits <= 64) return u + "int64_t";
  if (bits <= 128) return sign ? "__int128" : "unsigned __int128";
  die("int width " + std::to_string(bits));
}
static std::string ctype(Type* t) {
  if (t->isIntegerTy()) return inttype(t->getIntegerBitWidth());
  if (t->isPointerTy()) return "uint8_t*";
  if (t->isVoidTy()) return "void";
  if (t->isStructTy() || t->isArrayTy() || t->isVectorTy()) return aggtype(t);
  if (t->isFloatTy()) return "float";
  if (t->isDoubleTy()) return "double";
  die("ctype " + tstr(t));
}
static unsigned ibits(Type* t) { return t->getIntegerBitWidth(); }
static bool oddwidth(Type* t) {
  if (!t->isIntegerTy()) return false;
  unsigned b = ibits(t);
  return !(b == 8 || b == 16 || b == 32 || b == 64 || b == 128);
}
static std::string maskexpr(Type* t, const std::string& e) {
  if (!oddwidth(t)) return e;
  unsigned b = ibits(t);
  if (b == 1) return "((" + e + ")&1)";
  std::ostringstream o; o << "((" << e << ")&(((" << inttype(b) << ")1<<" << b << ")-1))"; return o.str();
}
static std::string fnsig(const Function* f, const std::string& name) {
  std::ostringstream o;
  o << ctype(f->getReturnType()) << " " << name << "(";
  bool first = true;
  for (auto& a : f->args()) { if (!first) o << ", "; first = false; o << ctype(a.getType()) << " a" << a.getArgNo(); }
  if (f->isVarArg()) { o << (first ? "" : ", ") << "..."; first = false; }
  if (first) o << "void";
  o << ")";
  return o.str();
}
static std::string fnptrtype(FunctionType* ft) {
  std::ostringstream o;
  o << ctype(ft->getReturnType()) << "(*)(";
  for (unsigned i = 0; i < ft->getNumParams(); i++) { if (i) o << ","; o << ctype(ft->getParamType(i)); }
  if (ft->getNumParams() == 0) o << "void";
  o << ")";
  return o.str();
}

// function types of indirect calls seen so far (for virtual dispatch: which vtable entries can be targets)
static std::vector<FunctionType*> indirectTypes;
static bool fnTypeCompatible(FunctionType* a, FunctionType* b) {
  if (a->getNumParams() != b->getNumParams() || a->isVarArg() != b->isVarArg()) return false;
  auto same = [](Type* x, Type* y) { return (x->isPointerTy() && y->isPointerTy()) || x == y; };
  if (!same(a->getReturnType(), b->getReturnType())) return false;
  for (unsigned i = 0; i < a->getNumParams(); i++) if (!same(a->getParamType(i), b->getParamType(i))) return false;
  return true;
}
// ---- reachability ----
static std::set<const Function*> needF;
static std::set<const GlobalVariable*> needG;
static std::deque<const Function*> workF;
static std::deque<const GlobalVariable*> workG;
static void need(const Constant* c);
static void needfn(const Function* f) { if (needF.insert(f).second) workF.push_back(f); }
static void needgv(const GlobalVariable* g) { if (needG.insert(g).second) workG.push_back(g); }
static void need(const Constant* c) {
  if (auto* f = dyn_cast<Function>(c)) { needfn(f); return; }
  if (auto* g = dyn_cast<GlobalVariable>(c)) { needgv(g); return; }
  if (auto* ga = dyn_cast<GlobalAlias>(c)) { need(ga->getAliasee()); return; }
  if (isa<ConstantData>(c)) return;
  for (auto& op : c->operands()) if (auto* oc = dyn_cast<Constant>(op)) need(oc);
}

// ---- constants as expressions ----
static std::string cexpr(const Constant* c);
static std::string intlit(const APInt& v) {
  unsigned b = v.getBitWidth();
  if (b <= 64) { std::ostringstream o; o << "((" << inttype(b) << ")" << v.getZExtValue() << "ULL)"; return o.str(); }
  std::ostringstream o;
  o << "(((unsigned __int128)" << v.lshr(64).getZExtValue() << "ULL<<64)|(unsigned __int128)" << v.trunc(64).getZExtValue() << "ULL)";
  return o.str();
}
static std::string gepoff(const GEPOperator* g, std::function<std::string(const Value*)> val) {
  std::ostringstream o;
  APInt coff(64, 0);
  std::string dyn;
  for (auto gti = gep_type_begin(g), e = gep_type_end(g); gti != e; ++gti) {
    Value* idx = gti.getOperand();
    if (StructType* st = gti.getStructTypeOrNull()) {
      unsigned fi = cast<ConstantInt>(idx)->getZExtValue();
      coff += DL->getStructLayout(st)->getElementOffset(fi);
    } else {
      uint64_t sz = DL->getTypeAllocSize(gti.getIndexedType());
      if (auto* ci = dyn_cast<ConstantInt>(idx)) coff += APInt(64, (uint64_t)(ci->getSExtValue() * (int64_t)sz));
      else {
        unsigned b = idx->getType()->getIntegerBitWidth();
        std::ostringstream d; d << "+(int64_t)(" << inttype(b, true) << ")(" << val(idx) << ")*(int64_t)" << sz << "LL";
        dyn += d.str();
      }
    }
  }
  o << "((int64_t)" << (int64_t)coff.getSExtValue() << "LL" << dyn << ")";
  return o.str();
}
static bool typed_gep = true;
static bool atomics_hook = false;  // --atomics-hook: atomic accesses become calls into the harness's shared-memory model
// Typed address computation: &((S*)base)[i0].fK.e[i1]...  (field-sensitive for CBMC).  Falls back to
// byte arithmetic (empty result) for shapes we do not model (zero-length arrays, odd element types).
static std::string geptyped(const GEPOperator* g, const std::string& base, std::function<std::string(const Value*)> val) {
  if (!typed_gep) return "";
  Type* S = g->getSourceElementType();
  if (!S->isSized()) return "";
  if (S->isIntegerTy(8)) return "";  // plain byte arithmetic
  auto idxexpr = [&](Value* idx) -> std::string {
    if (auto* ci = dyn_cast<ConstantInt>(idx)) return std::to_string(ci->getSExtValue()) + "LL";
    unsigned b = idx->getType()->getIntegerBitWidth();
    return "(int64_t)(" + inttype(b, true) + ")(" + val(idx) + ")";
  };
  std::vector<Value*> idx(g->idx_begin(), g->idx_end());
  if (idx.empty()) return "";
  while (S->isStructTy() && unwrap(S) != S && idx.size() >= 2 && !is_byte_union(S)) {
    // transparent wrapper: (S*)b, 0, 0, rest...  ==  (member*)b, 0, rest...
    auto* c0 = dyn_cast<ConstantInt>(idx[0]);
    if (!c0 || !c0->isZero()) break;
    S = cast<StructType>(S)->getElementType(0);
    idx.erase(idx.begin() + 1);
  }
  std::string e; Type* cur = S; size_t k = 1;
  auto okscalar = [](Type* t) { return t->isPointerTy() || (t->isIntegerTy() && !oddwidth(t) && ibits(t) >= 8) ; };
  if (auto* at = dyn_cast<ArrayType>(S)) {
    // top-level array object: index through a pointer to the element type (objects of array type are
    // emitted as plain C arrays)
    auto* c0 = dyn_cast<ConstantInt>(idx[0]);
    if (!c0 || !c0->isZero() || idx.size() < 2) return "";
    Type* et = at->getElementType();
    if (!(okscalar(et) || et->isStructTy() || et->isArrayTy())) return "";
    if (et->isArrayTy()) return "";
    e = "((" + ctype(et) + "*)" + base + ")[" + idxexpr(idx[1]) + "]"; cur = et; k = 2;
  } else if (S->isStructTy() || okscalar(S)) {
    auto* c0 = dyn_cast<ConstantInt>(idx[0]);
    if (c0 && c0->isZero()) e = "(*(" + ctype(S) + "*)" + base + ")";
    else e = "((" + ctype(S) + "*)" + base + ")[" + idxexpr(idx[0]) + "]";
  } else return "";
  if (is_byte_union(S)) return "";
  for (; k < idx.size(); k++) {
    if (is_byte_union(cur)) {
      // remaining indices select inside the union: byte offset from the (array) field
      APInt off(64, 0); Type* c2 = cur; std::string dyn;
      for (size_t j = k; j < idx.size(); j++) {
        if (auto* st = dyn_cast<StructType>(c2)) { unsigned fi = cast<ConstantInt>(idx[j])->getZExtValue(); off += DL->getStructLayout(st)->getElementOffset(fi); c2 = st->getElementType(fi); }
        else if (auto* at = dyn_cast<ArrayType>(c2)) { uint64_t sz = DL->getTypeAllocSize(at->getElementType()); dyn += "+" + idxexpr(idx[j]) + "*" + std::to_string(sz) + "LL"; c2 = at->getElementType(); }
        else return "";
      }
      return "(((uint8_t*)" + e + ")+(" + std::to_string((int64_t)off.getSExtValue()) + "LL" + dyn + "))";
    }
    if (auto* st = dyn_cast<StructType>(cur)) {
      unsigned fi = cast<ConstantInt>(idx[k])->getZExtValue();
      e += ".f" + std::to_string(fi); cur = st->getElementType(fi);
    } else if (auto* at = dyn_cast<ArrayType>(cur)) {
      if (at->getNumElements() == 0) return "";
      e += ".e[" + idxexpr(idx[k]) + "]"; cur = at->getElementType();
    } else return "";
  }
  if (cur->isVectorTy() || (cur->isIntegerTy() && (oddwidth(cur) || ibits(cur) < 8))) return "";
  if (is_byte_union(cur)) return "((uint8_t*)" + e + ")";  // field is a C array: decays to its first byte
  return "((uint8_t*)&" + e + ")";
}
static std::string cexpr(const Constant* c) {
  if (auto* ci = dyn_cast<ConstantInt>(c)) return intlit(ci->getValue());
  if (isa<ConstantPointerNull>(c)) return "((uint8_t*)0)";
  if (isa<UndefValue>(c)) {
    if (c->getType()->isIntegerTy()) return "((" + ctype(c->getType()) + ")0)";
    if (c->getType()->isPointerTy()) return "((uint8_t*)0)";
    return "(" + ctype(c->getType()) + "){0}";
  }
  if (auto* f = dyn_cast<Function>(c)) return "((uint8_t*)&" + gname(f) + ")";
  if (auto* g = dyn_cast<GlobalVariable>(c)) return "((uint8_t*)" + gname(g) + ")";
  if (auto* ga = dyn_cast<GlobalAlias>(c)) return cexpr(ga->getAliasee());
  if (auto* ce = dyn_cast<ConstantExpr>(c)) {
    switch (ce->getOpcode()) {
      case Instruction::BitCast: case Instruction::AddrSpaceCast:
        if (ce->getType()->isPointerTy()) return cexpr(ce->getOperand(0));
        break;
      case Instruction::GetElementPtr:
      {
        std::string te = geptyped(cast<GEPOperator>(ce), cexpr(ce->getOperand(0)), [](const Value* v) { return cexpr(cast<Constant>(v)); });
        if (!te.empty()) return te;
        return "(" + cexpr(ce->getOperand(0)) + "+" + gepoff(cast<GEPOperator>(ce), [](const Value* v) { return cexpr(cast<Constant>(v)); }) + ")";
      }
      case Instruction::PtrToInt:
        return "((" + ctype(ce->getType()) + ")(uint64_t)" + cexpr(ce->getOperand(0)) + ")";
      case Instruction::IntToPtr:
        return "((uint8_t*)(uint64_t)" + cexpr(ce->getOperand(0)) + ")";
      case Instruction::Sub: return "(" + cexpr(ce->getOperand(0)) + "-" + cexpr(ce->getOperand(1)) + ")";
      case Instruction::Add: return "(" + cexpr(ce->getOperand(0)) + "+" + cexpr(ce->getOperand(1)) + ")";
      default: break;
    }
    die("constexpr " + str(c));
  }
  if (isa<ConstantAggregateZero>(c)) return "(" + ctype(c->getType()) + "){0}";
  if (isa<ConstantStruct>(c) || isa<ConstantArray>(c) || isa<ConstantVector>(c) || isa<ConstantDataSequential>(c)) {
    std::ostringstream o; o << "(" << ctype(c->getType()) << "){";
    bool isst = c->getType()->isStructTy();
    if (!isst) o << "{";
    unsigned n = isst ? c->getType()->getStructNumElements() : (c->getType()->isArrayTy() ? c->getType()->getArrayNumElements() : cast<FixedVectorType>(c->getType())->getNumElements());
    for (unsigned i = 0; i < n; i++) { if (i) o << ","; o << cexpr(c->getAggregateElement(i)); }
    if (!isst) o << "}";
    o << "}"; return o.str();
  }
  die("const " + str(c));
}


struct RelocE;
static void serialize(const Constant* c, uint64_t off, std::vector<uint8_t>& buf, std::vector<RelocE>& rel);
static std::string cinit_bytes(const Constant* c);
static std::string cinit(const Constant* c) {
  Type* t = c->getType();
  if (is_byte_union(t)) return cinit_bytes(c);
  if (t->isStructTy() || t->isArrayTy() || t->isVectorTy()) {
    if (isa<ConstantAggregateZero>(c) || isa<UndefValue>(c)) return "{0}";
    std::ostringstream o; bool isst = t->isStructTy();
    o << "{"; if (!isst) o << "{";
    unsigned n = isst ? t->getStructNumElements() : (t->isArrayTy() ? t->getArrayNumElements() : cast<FixedVectorType>(t)->getNumElements());
    for (unsigned i = 0; i < n; i++) { if (i) o << ","; o << cinit(c->getAggregateElement(i)); }
    if (n == 0) o << "0";
    if (!isst) o << "}";
    o << "}"; return o.str();
  }
  return cexpr(c);
}
// ---- global initialisers -> bytes + relocations ----
struct RelocE { uint64_t off; std::string expr; const Function* lazy; };
static bool lazy_mode = false;
static void serialize(const Constant* c, uint64_t off, std::vector<uint8_t>& buf, std::vector<RelocE>& rel) {
  Type* t = c->getType();
  if (isa<ConstantAggregateZero>(c) || isa<UndefValue>(c)) return;
  if (auto* ci = dyn_cast<ConstantInt>(c)) {
    APInt v = ci->getValue(); unsigned n = (v.getBitWidth() + 7) / 8;
    for (unsigned i = 0; i < n; i++) buf[off + i] = (uint8_t)v.lshr(8 * i).trunc(std::min(8u, v.getBitWidth() - 0)).getZExtValue();
    return;
  }
  if (isa<ConstantPointerNull>(c)) return;
  if (auto* cds = dyn_cast<ConstantDataSequential>(c)) {
    uint64_t es = DL->getTypeAllocSize(cds->getElementType());
    for (unsigned i = 0; i < cds->getNumElements(); i++) serialize(cds->getElementAsConstant(i), off + i * es, buf, rel);
    return;
  }
  if (auto* ca = dyn_cast<ConstantArray>(c)) {
    uint64_t es = DL->getTypeAllocSize(ca->getType()->getElementType());
    for (unsigned i = 0; i < ca->getNumOperands(); i++) serialize(ca->getOperand(i), off + i * es, buf, rel);
    return;
  }
  if (auto* cs = dyn_cast<ConstantStruct>(c)) {
    auto* sl = DL->getStructLayout(cs->getType());
    for (unsigned i = 0; i < cs->getNumOperands(); i++) serialize(cs->getOperand(i), off + sl->getElementOffset(i), buf, rel);
    return;
  }
  if (t->isPointerTy()) {
    const Constant* s = c->stripPointerCasts();
    if (lazy_mode && isa<Function>(s)) { rel.push_back({off, "", cast<Function>(s)}); return; }
    need(c); rel.push_back({off, cexpr(c), nullptr}); return; }
  if (t->isIntegerTy() && isa<ConstantExpr>(c)) { need(c); rel.push_back({off, cexpr(c), nullptr}); return; }  // ptrtoint etc (assume 64-bit)
  die("serialize " + str(c));
}

static std::string cinit_bytes(const Constant* c) {
  uint64_t sz = DL->getTypeAllocSize(c->getType());
  std::vector<uint8_t> buf(sz, 0); std::vector<RelocE> rel;
  serialize(c, 0, buf, rel);
  if (!rel.empty()) die("relocation inside byte union initialiser");
  std::ostringstream o; o << "{";
  for (uint64_t i = 0; i < sz; i++) { if (i) o << ","; o << (unsigned)buf[i]; }
  o << "}"; return o.str();
}

// ---- function bodies ----
struct FnEmitter {
  const Function& F;
  std::ostringstream out;
  std::map<const Value*, std::string> names;
  unsigned counter = 0;
  FnEmitter(const Function& f) : F(f) {}
  std::string name(const Value* v) {
    auto it = names.find(v);
    if (it != names.end()) return it->second;
    std::string n;
    if (auto* a = dyn_cast<Argument>(v)) n = "a" + std::to_string(a->getArgNo());
    else if (isa<BasicBlock>(v)) n = "bb" + std::to_string(counter++);
    else n = "v" + std::to_string(counter++);
    return names[v] = n;
  }
  std::string val(const Value* v) {
    if (auto* c = dyn_cast<Constant>(v)) { need(c); return cexpr(c); }
    return name(v);
  }
  std::string sval(const Value* v) {  // signed view of integer
    unsigned b = ibits(v->getType());
    if (oddwidth(v->getType())) {
      // sign-extend odd width
      unsigned cb = b <= 8 ? 8 : b <= 16 ? 16 : b <= 32 ? 32 : b <= 64 ? 64 : 128;
      std::ostringstream o; o << "((" << inttype(cb, true) << ")((" << inttype(cb, true) << ")((" << inttype(cb) << ")" << val(v) << "<<" << (cb - b) << ")>>" << (cb - b) << "))";
      return o.str();
    }
    return "((" + inttype(b, true) + ")" + val(v) + ")";
  }
  void phis(const BasicBlock* from, const BasicBlock* to, const std::string& ind) {
    std::vector<std::pair<std::string, std::string>> asg;
    for (auto& phi : to->phis()) {
      const Value* in = phi.getIncomingValueForBlock(from);
      asg.push_back({name(&phi), val(in)});
    }
    if (asg.empty()) return;
    if (asg.size() == 1) { out << ind << asg[0].first << " = " << asg[0].second << ";\n"; return; }
    out << ind << "{";
    unsigned i = 0;
    for (auto& phi : to->phis()) { out << " " << ctype(phi.getType()) << " t" << i << " = " << asg[i].second << ";"; i++; }
    i = 0;
    for (auto& a : asg) { out << " " << a.first << " = t" << i << ";"; i++; }
    out << " }\n";
  }
  void jump(const BasicBlock* from, const BasicBlock* to, const std::string& ind) {
    phis(from, to, ind);
    out << ind << "goto " << name(to) << ";\n";
  }
  std::string loadexpr(Type* t, const std::string& p) {
    if (t->isIntegerTy()) {
      unsigned b = ibits(t);
      if (b == 1) return "((*(uint8_t*)(" + p + "))&1)";
      if (oddwidth(t)) die("load odd int " + tstr(t));
      return "(*(" + ctype(t) + "*)(" + p + "))";
    }
    if (t->isPointerTy()) return "(*(uint8_t**)(" + p + "))";
    return "(*(" + ctype(t) + "*)(" + p + "))";
  }
  void emitCall(const CallBase& ci) {
    const Function* callee = ci.getCalledFunction();
    std::string lhs = ci.getType()->isVoidTy() ? "" : name(&ci) + " = ";
    auto arg = [&](unsigned i) { return val(ci.getArgOperand(i)); };
    if (callee && callee->isIntrinsic()) {
      switch (callee->getIntrinsicID()) {
        case Intrinsic::lifetime_start: case Intrinsic::lifetime_end: case Intrinsic::experimental_noalias_scope_decl:
        case Intrinsic::invariant_start: case Intrinsic::invariant_end: case Intrinsic::dbg_value: case Intrinsic::dbg_declare:
        case Intrinsic::x86_sse2_pause:
          if (!lhs.empty()) out << "  " << lhs << "0;\n";
          return;
        case Intrinsic::assume: out << "  /* llvm.assume */ __CPROVER_assume(" << arg(0) << ");\n"; return;
        case Intrinsic::expect: out << "  " << lhs << arg(0) << ";\n"; return;
        case Intrinsic::memcpy: case Intrinsic::memmove: case Intrinsic::memset: {
          const char* base = callee->getIntrinsicID() == Intrinsic::memcpy ? "ll2c_memcpy" : callee->getIntrinsicID() == Intrinsic::memmove ? "ll2c_memmove" : "ll2c_memset";
          auto* cn = dyn_cast<ConstantInt>(ci.getArgOperand(2));
          bool small = cn && cn->getZExtValue() <= 128;
          out << "  " << base << (small ? "_c" : "") << "(" << arg(0) << "," << arg(1) << ",(uint64_t)" << arg(2) << ");\n"; return;
        }
        case Intrinsic::trap: out << "  __CPROVER_assert(0,\"llvm.trap\"); __CPROVER_assume(0);\n"; return;
        case Intrinsic::umax: out << "  " << lhs << "(" << arg(0) << ">" << arg(1) << "?" << arg(0) << ":" << arg(1) << ");\n"; return;
        case Intrinsic::umin: out << "  " << lhs << "(" << arg(0) << "<" << arg(1) << "?" << arg(0) << ":" << arg(1) << ");\n"; return;
        case Intrinsic::smax: out << "  " << lhs << "(" << sval(ci.getArgOperand(0)) << ">" << sval(ci.getArgOperand(1)) << "?" << arg(0) << ":" << arg(1) << ");\n"; return;
        case Intrinsic::smin: out << "  " << lhs << "(" << sval(ci.getArgOperand(0)) << "<" << sval(ci.getArgOperand(1)) << "?" << arg(0) << ":" << arg(1) << ");\n"; return;
        case Intrinsic::ctlz: case Intrinsic::cttz: case Intrinsic::ctpop: {
          unsigned b = ibits(ci.getType());
          const char* fn = callee->getIntrinsicID() == Intrinsic::ctlz ? "ll2c_ctlz" : callee->getIntrinsicID() == Intrinsic::cttz ? "ll2c_cttz" : "ll2c_ctpop";
          out << "  " << lhs << "(" << ctype(ci.getType()) << ")" << fn << "((uint64_t)" << arg(0) << "," << b << ");\n"; return;
        }
        case Intrinsic::fshl: case Intrinsic::fshr: {
          // funnel shift: fshl(a,b,s) = (a:b << (s mod w)) high word ; fshr(a,b,s) = (a:b >> (s mod w)) low word
          unsigned b = ibits(ci.getType());
          if (b > 64) die("fsh >64");
          std::string ct = ctype(ci.getType());
          std::string sh = "((uint64_t)" + arg(2) + " % " + std::to_string(b) + ")";
          bool left = callee->getIntrinsicID() == Intrinsic::fshl;
          out << "  { uint64_t s_ = " << sh << "; uint64_t a_ = (uint64_t)" << arg(0) << ", b_ = (uint64_t)" << arg(1) << "; "
              << name(&ci) << " = " << maskexpr(ci.getType(), std::string("(") + ct + ")(s_ == 0 ? " + (left ? "a_" : "b_") + " : " +
                 (left ? ("((a_ << s_) | (b_ >> (" + std::to_string(b) + " - s_)))") : ("((b_ >> s_) | (a_ << (" + std::to_string(b) + " - s_)))")) + ")") << "; }\n";
          return;
        }
        case Intrinsic::bswap: { unsigned b = ibits(ci.getType()); out << "  " << lhs << "(" << ctype(ci.getType()) << ")ll2c_bswap((uint64_t)" << arg(0) << "," << b << ");\n"; return; }
        case Intrinsic::uadd_with_overflow: case Intrinsic::umul_with_overflow: case Intrinsic::usub_with_overflow: {
          unsigned b = ibits(ci.getArgOperand(0)->getType());
          if (b > 32) die("with.overflow >32");
          const char* op = callee->getIntrinsicID() == Intrinsic::uadd_with_overflow ? "+" : callee->getIntrinsicID() == Intrinsic::umul_with_overflow ? "*" : "-";
          out << "  { uint64_t w = (uint64_t)" << arg(0) << op << "(uint64_t)" << arg(1) << "; " << name(&ci) << ".f0 = (" << inttype(b) << ")w; " << name(&ci) << ".f1 = (w >> " << b << ") != 0; }\n"; return;
        }
        default: die("intrinsic " + callee->getName().str());
      }
    }
    std::ostringstream args;
    for (unsigned i = 0; i < ci.arg_size(); i++) { if (i) args << ", "; args << arg(i); }
    if (callee) {
      needfn(callee);
      if (callee->doesNotReturn() && callee->isDeclaration() && !stubs.count(callee->getName().str())) {
        out << "  ll2c_noreturn(\"" << callee->getName().str() << "\");\n"; return;
      }
      for (unsigned i = 0; i < ci.arg_size(); i++) if (ci.paramHasAttr(i, Attribute::ByVal)) die("byval call");
      out << "  " << lhs << gname(callee) << "(" << args.str() << ");\n";
    } else {
      if (ci.isInlineAsm()) { out << "  /* inline asm ignored */\n"; return; }
      indirectTypes.push_back(ci.getFunctionType());
      out << "  " << lhs << "((" << fnptrtype(ci.getFunctionType()) << ")" << val(ci.getCalledOperand()) << ")(" << args.str() << ");\n";
    }
  }

  // ---------- vector support (lane-wise) ----------
  static unsigned vlen(Type* t) { return cast<FixedVectorType>(t)->getNumElements(); }
  static Type* velt(Type* t) { return cast<FixedVectorType>(t)->getElementType(); }
  std::string lane(const Value* v, unsigned i) {
    if (auto* c = dyn_cast<Constant>(v)) { need(c); Constant* e = c->getAggregateElement(i); if (!e) die("lane const"); return cexpr(e); }
    return name(v) + ".e[" + std::to_string(i) + "]";
  }
  std::string slane(const Value* v, unsigned i) {
    Type* et = velt(v->getType()); unsigned b = ibits(et);
    if (b == 1) return "((int8_t)-(int8_t)" + lane(v, i) + ")";
    if (oddwidth(et)) die("slane odd");
    return "((" + inttype(b, true) + ")" + lane(v, i) + ")";
  }
  // byte k (little endian) of a vector/scalar int value
  std::string bytesOf(const Value* v, unsigned k) {
    Type* t = v->getType();
    if (t->isIntegerTy()) { std::ostringstream o; o << "((uint8_t)((" << val(v) << ")>>" << 8 * k << "))"; return o.str(); }
    Type* et = velt(t); unsigned w = ibits(et) / 8; if (ibits(et) % 8) die("bytesOf sub-byte lanes");
    std::ostringstream o; o << "((uint8_t)((" << lane(v, k / w) << ")>>" << 8 * (k % w) << "))"; return o.str();
  }
  bool emitVector(const Instruction& I) {
    Type* T = I.getType();
    bool resV = T->isVectorTy();
    bool opV = I.getNumOperands() && I.getOperand(0)->getType()->isVectorTy();
    if (auto* ci = dyn_cast<CallBase>(&I)) {
      const Function* cf = ci->getCalledFunction();
      if (!cf || !cf->isIntrinsic()) return false;
      std::string L = T->isVoidTy() ? "" : name(&I);
      switch (cf->getIntrinsicID()) {
        case Intrinsic::masked_load: {
          unsigned n = vlen(T); unsigned es = DL->getTypeAllocSize(velt(T));
          for (unsigned i = 0; i < n; i++)
            out << "  " << L << ".e[" << i << "] = " << lane(ci->getArgOperand(2), i) << " ? *(" << ctype(velt(T)) << "*)(" << val(ci->getArgOperand(0)) << "+" << i * es << ") : " << lane(ci->getArgOperand(3), i) << ";\n";
          return true;
        }
        case Intrinsic::masked_store: {
          Type* vt = ci->getArgOperand(0)->getType(); unsigned n = vlen(vt); unsigned es = DL->getTypeAllocSize(velt(vt));
          for (unsigned i = 0; i < n; i++)
            out << "  if (" << lane(ci->getArgOperand(3), i) << ") *(" << ctype(velt(vt)) << "*)(" << val(ci->getArgOperand(1)) << "+" << i * es << ") = " << lane(ci->getArgOperand(0), i) << ";\n";
          return true;
        }
        case Intrinsic::x86_sse2_pmovmskb_128: {
          out << "  " << L << " = 0";
          for (unsigned i = 0; i < 16; i++) out << " | ((uint32_t)((" << lane(ci->getArgOperand(0), i) << ")>>7)<<" << i << ")";
          out << ";\n"; return true;
        }
        case Intrinsic::x86_ssse3_pshuf_b_128: {
          for (unsigned i = 0; i < 16; i++) {
            std::string b = lane(ci->getArgOperand(1), i);
            out << "  " << L << ".e[" << i << "] = ((" << b << ")&0x80) ? 0 : ";
            if (isa<Constant>(ci->getArgOperand(0))) {
              out << "(";
              for (unsigned k = 0; k < 16; k++) out << "((" << b << "&15)==" << k << ") ? " << lane(ci->getArgOperand(0), k) << " : ";
              out << "0);\n";
            } else out << name(ci->getArgOperand(0)) << ".e[(" << b << ")&15];\n";
          }
          return true;
        }
        case Intrinsic::ctpop: case Intrinsic::ctlz: case Intrinsic::cttz: case Intrinsic::umin: case Intrinsic::umax:
          if (resV) die("vector bit intrinsic");
          return false;
        default: if (resV || opV) die("vector intrinsic " + cf->getName().str()); return false;
      }
    }
    if (isa<PHINode>(I) || isa<ReturnInst>(I)) return false;
    if (!resV && !opV && !isa<ExtractElementInst>(I) && !isa<StoreInst>(I)) return false;
    std::string L = T->isVoidTy() ? "" : name(&I);
    switch (I.getOpcode()) {
      case Instruction::Add: case Instruction::Sub: case Instruction::Mul: case Instruction::And: case Instruction::Or: case Instruction::Xor:
      case Instruction::Shl: case Instruction::LShr: {
        const char* o = I.getOpcode() == Instruction::Add ? "+" : I.getOpcode() == Instruction::Sub ? "-" : I.getOpcode() == Instruction::Mul ? "*" : I.getOpcode() == Instruction::And ? "&" : I.getOpcode() == Instruction::Or ? "|" : I.getOpcode() == Instruction::Xor ? "^" : I.getOpcode() == Instruction::Shl ? "<<" : ">>";
        Type* et = velt(T);
        for (unsigned i = 0; i < vlen(T); i++)
          out << "  " << L << ".e[" << i << "] = " << maskexpr(et, "(" + ctype(et) + ")((uint64_t)" + lane(I.getOperand(0), i) + o + "(uint64_t)" + lane(I.getOperand(1), i) + ")") << ";\n";
        return true;
      }
      case Instruction::AShr: {
        Type* et = velt(T);
        for (unsigned i = 0; i < vlen(T); i++)
          out << "  " << L << ".e[" << i << "] = (" << ctype(et) << ")(" << slane(I.getOperand(0), i) << ">>" << lane(I.getOperand(1), i) << ");\n";
        return true;
      }
      case Instruction::ICmp: {
        auto& c = cast<ICmpInst>(I); const char* o; bool sg = false;
        switch (c.getPredicate()) {
          case CmpInst::ICMP_EQ: o = "=="; break; case CmpInst::ICMP_NE: o = "!="; break;
          case CmpInst::ICMP_UGT: o = ">"; break; case CmpInst::ICMP_UGE: o = ">="; break;
          case CmpInst::ICMP_ULT: o = "<"; break; case CmpInst::ICMP_ULE: o = "<="; break;
          case CmpInst::ICMP_SGT: o = ">"; sg = true; break; case CmpInst::ICMP_SGE: o = ">="; sg = true; break;
          case CmpInst::ICMP_SLT: o = "<"; sg = true; break; case CmpInst::ICMP_SLE: o = "<="; sg = true; break;
          default: die("vpred");
        }
        for (unsigned i = 0; i < vlen(T); i++)
          out << "  " << L << ".e[" << i << "] = (" << (sg ? slane(c.getOperand(0), i) : lane(c.getOperand(0), i)) << o << (sg ? slane(c.getOperand(1), i) : lane(c.getOperand(1), i)) << ");\n";
        return true;
      }
      case Instruction::Select: {
        if (!resV) return false;
        bool vc = I.getOperand(0)->getType()->isVectorTy();
        for (unsigned i = 0; i < vlen(T); i++)
          out << "  " << L << ".e[" << i << "] = " << (vc ? lane(I.getOperand(0), i) : val(I.getOperand(0))) << " ? " << lane(I.getOperand(1), i) << " : " << lane(I.getOperand(2), i) << ";\n";
        return true;
      }
      case Instruction::ZExt: case Instruction::Trunc:
        for (unsigned i = 0; i < vlen(T); i++) out << "  " << L << ".e[" << i << "] = " << maskexpr(velt(T), "(" + ctype(velt(T)) + ")" + lane(I.getOperand(0), i)) << ";\n";
        return true;
      case Instruction::SExt:
        for (unsigned i = 0; i < vlen(T); i++) out << "  " << L << ".e[" << i << "] = (" << ctype(velt(T)) << ")" << slane(I.getOperand(0), i) << ";\n";
        return true;
      case Instruction::BitCast: {
        const Value* s = I.getOperand(0); Type* ST = s->getType();
        if (T->isPointerTy()) return false;
        bool s1 = ST->isVectorTy() && ibits(velt(ST)) == 1, d1 = resV && ibits(velt(T)) == 1;
        if (s1 && T->isIntegerTy()) {  // <N x i1> -> iN
          out << "  " << L << " = 0";
          for (unsigned i = 0; i < vlen(ST); i++) out << " | ((" << ctype(T) << ")(" << lane(s, i) << "&1)<<" << i << ")";
          out << ";\n"; return true;
        }
        if (d1 && ST->isIntegerTy()) {  // iN -> <N x i1>
          for (unsigned i = 0; i < vlen(T); i++) out << "  " << L << ".e[" << i << "] = (" << val(s) << ">>" << i << ")&1;\n";
          return true;
        }
        if (s1 || d1) die("bitcast i1 vec");
        if (T->isIntegerTy()) {  // vec -> int
          unsigned nb = ibits(T) / 8; out << "  " << L << " = 0";
          for (unsigned k = 0; k < nb; k++) out << " | ((" << ctype(T) << ")" << bytesOf(s, k) << "<<" << 8 * k << ")";
          out << ";\n"; return true;
        }
        unsigned w = ibits(velt(T)) / 8;
        for (unsigned i = 0; i < vlen(T); i++) {
          out << "  " << L << ".e[" << i << "] = 0";
          for (unsigned k = 0; k < w; k++) out << " | ((" << ctype(velt(T)) << ")" << bytesOf(s, i * w + k) << "<<" << 8 * k << ")";
          out << ";\n";
        }
        return true;
      }
      case Instruction::Load: {
        if (ibits(velt(T)) % 8) die("vload i1");
        unsigned es = DL->getTypeAllocSize(velt(T));
        (void)es; out << "  " << L << " = *(" << ctype(T) << "*)(" << val(I.getOperand(0)) << ");\n";
        return true;
      }
      case Instruction::Store: {
        Type* vt = I.getOperand(0)->getType();
        if (!vt->isVectorTy()) return false;
        if (ibits(velt(vt)) % 8) die("vstore i1");
        unsigned es = DL->getTypeAllocSize(velt(vt));
        (void)es; out << "  *(" << ctype(vt) << "*)(" << val(I.getOperand(1)) << ") = " << val(I.getOperand(0)) << ";\n";
        return true;
      }
      case Instruction::ExtractElement: {
        if (auto* c = dyn_cast<ConstantInt>(I.getOperand(1))) out << "  " << L << " = " << lane(I.getOperand(0), c->getZExtValue()) << ";\n";
        else out << "  " << L << " = " << val(I.getOperand(0)) << ".e[" << val(I.getOperand(1)) << "];\n";
        return true;
      }
      case Instruction::InsertElement:
        out << "  " << L << " = " << val(I.getOperand(0)) << ";\n  " << L << ".e[" << val(I.getOperand(2)) << "] = " << val(I.getOperand(1)) << ";\n";
        return true;
      case Instruction::ShuffleVector: {
        auto& sv = cast<ShuffleVectorInst>(I); unsigned n0 = vlen(sv.getOperand(0)->getType());
        for (unsigned i = 0; i < vlen(T); i++) {
          int m = sv.getMaskValue(i);
          out << "  " << L << ".e[" << i << "] = " << (m < 0 ? std::string("0") : (unsigned)m < n0 ? lane(sv.getOperand(0), m) : lane(sv.getOperand(1), m - n0)) << ";\n";
        }
        return true;
      }
      case Instruction::Freeze: return false;
      default: die("vector inst " + str(&I) + " in " + F.getName().str());
    }
  }
  void emitInst(const Instruction& I) {
    Type* T = I.getType();
    std::string lhs = T->isVoidTy() ? "" : name(&I);
    auto op = [&](unsigned i) { return val(I.getOperand(i)); };
    if (emitVector(I)) return;
    switch (I.getOpcode()) {
      case Instruction::Alloca: {
        auto& ai = cast<AllocaInst>(I);
        if (!ai.isStaticAlloca()) die("dynamic alloca");
        out << "  " << lhs << " = " << lhs << "_mem;\n"; return;
      }
      case Instruction::Load: {
        auto& li = cast<LoadInst>(I);
        if (li.isAtomic() && atomics_hook && T->isIntegerTy()) {
          out << "  " << lhs << " = (" << ctype(T) << ")vk_atomic_load(" << op(0) << ", " << (int)li.getOrdering() << ", " << ibits(T) / 8 << ");\n"; return;
        }
        if (li.isAtomic()) out << "  /* atomic " << (int)li.getOrdering() << " */\n";
        out << "  " << lhs << " = " << loadexpr(T, op(0)) << ";\n"; return;
      }
      case Instruction::Store: {
        auto& si = cast<StoreInst>(I);
        Type* vt = si.getValueOperand()->getType();
        if (si.isAtomic() && atomics_hook && vt->isIntegerTy()) {
          out << "  vk_atomic_store(" << op(1) << ", (uint64_t)" << op(0) << ", " << (int)si.getOrdering() << ", " << ibits(vt) / 8 << ");\n"; return;
        }
        if (oddwidth(vt) && ibits(vt) != 1) die("store odd");
        std::string ct = vt->isIntegerTy() && ibits(vt) == 1 ? "uint8_t" : ctype(vt);
        out << "  *(" << ct << "*)(" << op(1) << ") = " << op(0) << ";\n"; return;
      }
      case Instruction::GetElementPtr:
      {
        std::string te = geptyped(cast<GEPOperator>(&I), op(0), [&](const Value* v) { return val(v); });
        if (!te.empty()) { out << "  " << lhs << " = " << te << ";\n"; return; }
        out << "  " << lhs << " = " << op(0) << " + " << gepoff(cast<GEPOperator>(&I), [&](const Value* v) { return val(v); }) << ";\n"; return;
      }
      case Instruction::Add: case Instruction::Sub: case Instruction::Mul: case Instruction::And: case Instruction::Or: case Instruction::Xor: {
        const char* o = I.getOpcode() == Instruction::Add ? "+" : I.getOpcode() == Instruction::Sub ? "-" : I.getOpcode() == Instruction::Mul ? "*" : I.getOpcode() == Instruction::And ? "&" : I.getOpcode() == Instruction::Or ? "|" : "^";
        std::string ct = ctype(T);
        std::string wide = ibits(T) <= 32 ? "uint64_t" : ct;  // avoid int promotion UB
        out << "  " << lhs << " = " << maskexpr(T, "(" + ct + ")((" + wide + ")" + op(0) + o + "(" + wide + ")" + op(1) + ")") << ";\n"; return;
      }
      case Instruction::Shl: case Instruction::LShr: {
        const char* o = I.getOpcode() == Instruction::Shl ? "<<" : ">>";
        std::string ct = ctype(T);
        out << "  __CPROVER_assert((uint64_t)" << op(1) << " < " << ibits(T) << ", \"shift amount in range\");\n";
        out << "  " << lhs << " = " << maskexpr(T, "(" + ct + ")((" + (ibits(T) <= 64 ? std::string("uint64_t") : ct) + ")" + op(0) + o + "(" + op(1) + "))") << ";\n"; return;
      }
      case Instruction::AShr:
        out << "  __CPROVER_assert((uint64_t)" << op(1) << " < " << ibits(T) << ", \"shift amount in range\");\n";
        out << "  " << lhs << " = " << maskexpr(T, "(" + ctype(T) + ")(" + sval(I.getOperand(0)) + ">>(" + op(1) + "))") << ";\n"; return;
      case Instruction::UDiv: case Instruction::URem: {
        const char* o = I.getOpcode() == Instruction::UDiv ? "/" : "%";
        out << "  " << lhs << " = (" << ctype(T) << ")(" << op(0) << o << op(1) << ");\n"; return;
      }
      case Instruction::SDiv: case Instruction::SRem: {
        const char* o = I.getOpcode() == Instruction::SDiv ? "/" : "%";
        out << "  " << lhs << " = " << maskexpr(T, "(" + ctype(T) + ")(" + sval(I.getOperand(0)) + o + sval(I.getOperand(1)) + ")") << ";\n"; return;
      }
      case Instruction::ICmp: {
        auto& c = cast<ICmpInst>(I);
        const char* o; bool sg = false;
        switch (c.getPredicate()) {
          case CmpInst::ICMP_EQ: o = "=="; break; case CmpInst::ICMP_NE: o = "!="; break;
          case CmpInst::ICMP_UGT: o = ">"; break; case CmpInst::ICMP_UGE: o = ">="; break;
          case CmpInst::ICMP_ULT: o = "<"; break; case CmpInst::ICMP_ULE: o = "<="; break;
          case CmpInst::ICMP_SGT: o = ">"; sg = true; break; case CmpInst::ICMP_SGE: o = ">="; sg = true; break;
          case CmpInst::ICMP_SLT: o = "<"; sg = true; break; case CmpInst::ICMP_SLE: o = "<="; sg = true; break;
          default: die("pred");
        }
        if (c.getOperand(0)->getType()->isPointerTy()) {
          if (c.isEquality()) out << "  " << lhs << " = (" << op(0) << o << op(1) << ");\n";
          else out << "  " << lhs << " = (" << op(0) << o << op(1) << "); /* pointer relation */\n";
        } else if (sg) out << "  " << lhs << " = (" << sval(c.getOperand(0)) << o << sval(c.getOperand(1)) << ");\n";
        else out << "  " << lhs << " = (" << op(0) << o << op(1) << ");\n";
        return;
      }
      case Instruction::Select: out << "  " << lhs << " = " << op(0) << " ? " << op(1) << " : " << op(2) << ";\n"; return;
      case Instruction::ZExt: out << "  " << lhs << " = (" << ctype(T) << ")" << op(0) << ";\n"; return;
      case Instruction::SExt: out << "  " << lhs << " = " << maskexpr(T, "(" + ctype(T) + ")" + sval(I.getOperand(0))) << ";\n"; return;
      case Instruction::Trunc: out << "  " << lhs << " = " << maskexpr(T, "(" + ctype(T) + ")" + op(0)) << ";\n"; return;
      case Instruction::BitCast:
        if (T->isPointerTy()) { out << "  " << lhs << " = " << op(0) << ";\n"; return; }
        die("bitcast " + str(&I));
      case Instruction::PtrToInt: out << "  " << lhs << " = (" << ctype(T) << ")(uint64_t)" << op(0) << ";\n"; return;
      case Instruction::IntToPtr: out << "  " << lhs << " = (uint8_t*)(uint64_t)" << op(0) << ";\n"; return;
      case Instruction::Freeze: out << "  " << lhs << " = " << op(0) << ";\n"; return;
      case Instruction::PHI: return;
      case Instruction::ExtractValue: {
        auto& ev = cast<ExtractValueInst>(I);
        std::string e = op(0); Type* cur = ev.getAggregateOperand()->getType();
        for (unsigned idx : ev.indices()) { if (cur->isStructTy()) { e += ".f" + std::to_string(idx); cur = cur->getStructElementType(idx); } else { e += ".e[" + std::to_string(idx) + "]"; cur = cur->getArrayElementType(); } }
        out << "  " << lhs << " = " << e << ";\n"; return;
      }
      case Instruction::InsertValue: {
        auto& iv = cast<InsertValueInst>(I);
        out << "  " << lhs << " = " << op(0) << ";\n";
        std::string e = lhs; Type* cur = T;
        for (unsigned idx : iv.indices()) { if (cur->isStructTy()) { e += ".f" + std::to_string(idx); cur = cur->getStructElementType(idx); } else { e += ".e[" + std::to_string(idx) + "]"; cur = cur->getArrayElementType(); } }
        out << "  " << e << " = " << op(1) << ";\n"; return;
      }
      case Instruction::Call: emitCall(cast<CallBase>(I)); return;
      case Instruction::Br: {
        auto& br = cast<BranchInst>(I);
        if (br.isUnconditional()) { jump(I.getParent(), br.getSuccessor(0), "  "); return; }
        out << "  if (" << op(0) << ") {\n"; jump(I.getParent(), br.getSuccessor(0), "    ");
        out << "  } else {\n"; jump(I.getParent(), br.getSuccessor(1), "    "); out << "  }\n"; return;
      }
      case Instruction::Switch: {
        auto& sw = cast<SwitchInst>(I);
        out << "  switch (" << op(0) << ") {\n";
        for (auto& c : sw.cases()) { out << "    case " << intlit(c.getCaseValue()->getValue()) << ": {\n"; jump(I.getParent(), c.getCaseSuccessor(), "      "); out << "    }\n"; }
        out << "    default: {\n"; jump(I.getParent(), sw.getDefaultDest(), "      "); out << "    }\n  }\n"; return;
      }
      case Instruction::Ret:
        if (I.getNumOperands()) out << "  return " << op(0) << ";\n"; else out << "  return;\n";
        return;
      case Instruction::Unreachable: out << "  ll2c_unreachable();\n"; return;
      case Instruction::AtomicCmpXchg: {
        auto& cx = cast<AtomicCmpXchgInst>(I);
        Type* vt = cx.getCompareOperand()->getType();
        if (atomics_hook) {
          out << "  { uint64_t old_; " << lhs << ".f1 = (uint8_t)vk_atomic_cmpxchg(" << op(0) << ", (uint64_t)" << op(1) << ", (uint64_t)" << op(2) << ", " << (int)cx.getSuccessOrdering() << ", " << (int)cx.getFailureOrdering() << ", " << ibits(vt) / 8 << ", &old_); " << lhs << ".f0 = (" << ctype(vt) << ")old_; }\n"; return;
        }
        out << "  __CPROVER_atomic_begin(); " << lhs << ".f0 = *(" << ctype(vt) << "*)(" << op(0) << "); " << lhs << ".f1 = (" << lhs << ".f0 == " << op(1) << "); if (" << lhs << ".f1) *(" << ctype(vt) << "*)(" << op(0) << ") = " << op(2) << "; __CPROVER_atomic_end();\n"; return;
      }
      case Instruction::Fence: out << "  __CPROVER_fence(\"WWfence\",\"RRfence\",\"RWfence\",\"WRfence\");\n"; return;
      default: die("inst " + str(&I) + " in " + F.getName().str());
    }
  }
  std::string run() {
    std::ostringstream body;
    // name args & all values first (stable)
    for (auto& a : F.args()) name(&a);
    for (auto& bb : F) { name(&bb); for (auto& I : bb) if (!I.getType()->isVoidTy()) name(&I); }
    // Blocks are emitted in reverse post-order so that natural loops are contiguous and their back edges are the
    // only backward gotos (LLVM's layout after loop rotation puts e.g. an initialisation loop after the loop it
    // feeds; CBMC's per-back-edge unwinding then sees interleaved regions and reports spurious unwinding failures).
    {
      std::set<const BasicBlock*> done;
      ReversePostOrderTraversal<const Function*> rpo(&F);
      for (const BasicBlock* bb : rpo) {
        done.insert(bb);
        out << " " << name(bb) << ": ;\n";
        for (auto& I : *bb) emitInst(I);
      }
      for (auto& bb : F) {   // unreachable blocks (kept for completeness of labels)
        if (done.count(&bb)) continue;
        out << " " << name(&bb) << ": ;\n";
        for (auto& I : bb) emitInst(I);
      }
    }
    body << fnsig(&F, gname(&F)) << " {\n";
    for (auto& bb : F) for (auto& I : bb) {
      if (I.getType()->isVoidTy()) continue;
      body << "  " << ctype(I.getType()) << " " << name(&I) << ";\n";
      if (auto* ai = dyn_cast<AllocaInst>(&I)) {
        uint64_t sz = DL->getTypeAllocSize(ai->getAllocatedType());
        if (auto* n = dyn_cast<ConstantInt>(ai->getArraySize())) sz *= n->getZExtValue();
        Type* at = unwrap(ai->getAllocatedType());
        bool one = isa<ConstantInt>(ai->getArraySize()) && cast<ConstantInt>(ai->getArraySize())->isOne();
        if (one && at->isArrayTy() && at->getArrayNumElements() > 0 && (at->getArrayElementType()->isStructTy() || at->getArrayElementType()->isPointerTy() || (at->getArrayElementType()->isIntegerTy() && !oddwidth(at->getArrayElementType()) && ibits(at->getArrayElementType()) >= 8)))
          body << "  " << ctype(at->getArrayElementType()) << " " << name(&I) << "_memt[" << at->getArrayNumElements() << "]; uint8_t* " << name(&I) << "_mem = (uint8_t*)" << name(&I) << "_memt;\n";
        else if (one && (at->isStructTy() || at->isArrayTy())) body << "  " << ctype(at) << " " << name(&I) << "_memt; uint8_t* " << name(&I) << "_mem = (uint8_t*)&" << name(&I) << "_memt;\n";
        else if (one && (at->isPointerTy() || (at->isIntegerTy() && !oddwidth(at)))) body << "  " << ctype(at) << " " << name(&I) << "_memt; uint8_t* " << name(&I) << "_mem = (uint8_t*)&" << name(&I) << "_memt;\n";
        else body << "  uint8_t " << name(&I) << "_mem[" << std::max<uint64_t>(sz, 1) << "] __attribute__((aligned(16)));\n";
      }
    }
    body << out.str() << "}\n\n";
    return body.str();
  }
};

int main(int argc, char** argv) {
  if (argc < 3) { fprintf(stderr, "usage: ll2c in.ll roots [--stub a,b] [--check-flags]\n"); return 1; }
  LLVMContext ctx; SMDiagnostic err;
  auto M = parseIRFile(argv[1], err, ctx);
  if (!M) { err.print("ll2c", errs()); return 1; }
  DL = &M->getDataLayout();
  auto split = [](const std::string& s) { std::vector<std::string> r; std::stringstream ss(s); std::string x; while (std::getline(ss, x, ',')) if (!x.empty()) r.push_back(x); return r; };
  for (int i = 3; i < argc; i++) {
    std::string a = argv[i];
    if (a == "--stub" && i + 1 < argc) for (auto& s : split(argv[++i])) stubs.insert(s);
    else if (a == "--check-flags") check_flags = true;
    else if (a == "--untyped-gep") typed_gep = false;
    else if (a == "--atomics-hook") atomics_hook = true;
    else if (a == "--prefix" && i + 1 < argc) prefix = argv[++i];
  }
  for (auto& r : split(argv[2])) {
    Function* f = M->getFunction(r);
    if (!f) { fprintf(stderr, "ll2c: root %s not found\n", r.c_str()); return 1; }
    needfn(f);
  }
  std::vector<std::string> bodies;
  std::vector<const Function*> defined, external;
  std::ostringstream gdefs, ginit, gfwd, gearly;
  struct LR { std::string g; uint64_t off; const Function* f; }; std::vector<LR> lazyrel;
  for (bool again = true; again;) {
  while (!workF.empty() || !workG.empty()) {
    while (!workF.empty()) {
      const Function* f = workF.front(); workF.pop_front();
      if (f->isIntrinsic()) continue;
      if (f->isDeclaration() || stubs.count(f->getName().str())) { external.push_back(f); continue; }
      defined.push_back(f);
      FnEmitter fe(*f);
      bodies.push_back(fe.run());
    }
    while (!workG.empty()) {
      const GlobalVariable* g = workG.front(); workG.pop_front();
      uint64_t sz = DL->getTypeAllocSize(g->getValueType());
      std::string n = gname(g);
      if (!g->hasInitializer()) { gearly << "extern uint8_t " << n << "[" << std::max<uint64_t>(sz, 1) << "];\n"; continue; }
      std::vector<uint8_t> buf(sz, 0); std::vector<RelocE> rel;
      if (g->getName().startswith("_ZTI") || g->getName().startswith("_ZTS")) { gearly << "static uint8_t " << n << "[" << std::max<uint64_t>(sz, 1) << "];\n"; continue; }
      lazy_mode = g->getName().startswith("_ZTV");
      serialize(g->getInitializer(), 0, buf, rel);
      lazy_mode = false;
      Type* vt = unwrap(g->getValueType());
      const Constant* ginitc = unwrapc(g->getInitializer());
      Type* et = vt->isArrayTy() ? vt->getArrayElementType() : nullptr;
      bool allzero = true; for (auto b : buf) if (b) allzero = false;
      const char* cq = (g->isConstant() && rel.empty()) ? "const " : "";
      if (et && et->isIntegerTy() && !oddwidth(et) && ibits(et) > 8 && ibits(et) <= 64 && rel.empty()) {
        unsigned eb = ibits(et) / 8;
        std::ostringstream& gdefs = gearly;
        gdefs << "static " << cq << ctype(et) << " " << n << "_t[" << sz / eb << "] = {";
        if (!allzero) for (uint64_t i = 0; i < sz / eb; i++) { uint64_t v = 0; for (unsigned k = 0; k < eb; k++) v |= (uint64_t)buf[i * eb + k] << (8 * k); gdefs << v << "ULL,"; } else gdefs << "0";
        gdefs << "};\n#define " << n << " ((uint8_t*)" << n << "_t)\n";
      } else if (!(et && et->isIntegerTy()) && !g->getName().startswith("_ZTV")) {
        rel.clear();
        need(g->getInitializer());
        if (et && vt->getArrayNumElements() > 0 && (et->isStructTy() || et->isPointerTy())) {
          // array objects are plain C arrays of the element type (see geptyped)
          std::string ect = ctype(et); uint64_t ne = vt->getArrayNumElements();
          std::string init = cinit(ginitc);
          if (init.size() >= 4 && init.substr(0, 2) == "{{") init = init.substr(1, init.size() - 2);
          gfwd << "static " << ect << " " << n << "_t[" << ne << "];\n#define " << n << " ((uint8_t*)" << n << "_t)\n";
          gdefs << "static " << ect << " " << n << "_t[" << ne << "] = " << init << ";\n";
        } else {
        std::string ct = ctype(vt);
        gfwd << "static " << ct << " " << n << "_t;\n#define " << n << " ((uint8_t*)&" << n << "_t)\n";
        gdefs << "static " << ct << " " << n << "_t = " << cinit(ginitc) << ";\n";
        }
      } else {
        std::ostringstream& gdefs = gearly;
        gdefs << "static " << cq << "uint8_t " << n << "[" << std::max<uint64_t>(sz, 1) << "] __attribute__((aligned(16))) = {";
        if (!allzero) for (auto b : buf) gdefs << (unsigned)b << ","; else gdefs << "0";
        gdefs << "};\n";
      }
      for (auto& r : rel) { if (r.lazy) lazyrel.push_back({n, r.off, r.lazy}); else ginit << "  *(uint64_t*)(" << n << "+" << r.off << ") = (uint64_t)" << r.expr << ";\n"; }
    }
  }
  // virtual dispatch: a vtable entry is a possible target of an indirect call with a compatible signature
  again = false;
  for (auto& lr : lazyrel) {
    if (needF.count(lr.f) || lr.f->isDeclaration()) continue;
    for (auto* ft : indirectTypes) if (fnTypeCompatible(ft, lr.f->getFunctionType())) { needfn(lr.f); again = true; break; }
  }
  }
  for (auto& lr : lazyrel) if (needF.count(lr.f) && !lr.f->isDeclaration()) ginit << "  *(uint64_t*)(" << lr.g << "+" << lr.off << ") = (uint64_t)&" << gname(lr.f) << ";\n";
  printf("/* generated by ll2c from %s */\n#include <stdint.h>\n#include <stddef.h>\n#include \"ll2c_rt.h\"\n", argv[1]);
  if (atomics_hook) printf("uint64_t vk_atomic_load(uint8_t* p, int order, int width);\nvoid vk_atomic_store(uint8_t* p, uint64_t v, int order, int width);\nint vk_atomic_cmpxchg(uint8_t* p, uint64_t expected, uint64_t desired, int so, int fo, int width, uint64_t* old);\n");
  for (auto& d : aggdefs) printf("%s\n", d.c_str());
  for (auto* f : external) printf("%s; /* external: %s */\n", fnsig(f, gname(f)).c_str(), f->getName().str().c_str());
  for (auto* f : defined) printf("%s;\n", fnsig(f, gname(f)).c_str());
  for (auto& d : aggasserts) printf("%s\n", d.c_str());
  printf("%s\n%s\n%s\n", gearly.str().c_str(), gfwd.str().c_str(), gdefs.str().c_str());
  printf("void %sll2c_init_globals(void) {\n%s}\n\n", prefix.c_str(), ginit.str().c_str());
  for (auto& b : bodies) printf("%s", b.c_str());
  return 0;
}
