#ifndef LL2C_RT_H
#define LL2C_RT_H
#include <stdint.h>
#include <stddef.h>
#include <string.h>
#include <stdlib.h>
#ifndef __CPROVER__
#include <stdio.h>
extern int vk_fail_count;
/* native builds (replay, translation validation): a violated assumption or an exceeded MODEL bound means
 * "this input is outside the query" -> vk_skip (replay: exit 3; TV: skip the input) */
void vk_skip(const char* why);
#define __CPROVER_assert(c, m) do { if (!(c)) { if (!strncmp((m), "MODEL:", 6)) vk_skip(m); else { printf("CHECK-FAIL: %s\n", m); vk_fail_count++; } } } while (0)
#define __CPROVER_assume(c) do { if (!(c)) vk_skip(#c); } while (0)
#define __CPROVER_atomic_begin()
#define __CPROVER_atomic_end()
#endif
/* memcpy / memmove with a length that is not a compile-time constant: under CBMC a loop with the CONSTANT
 * trip count LL2C_MAXCPY whose k-th iteration touches d[k] only if k < n.  (CBMC's built-in memcpy goes
 * through a variable-length array and array_replace, which drags the array theory and byte_updates of the
 * enclosing object into the formula: measured 194 s vs 1.5 s on url::parse_ipv4.)  n > LL2C_MAXCPY makes
 * the query "undecided" (MODEL bound), never a pass.  Constant lengths (ll2c_*_c) are plain bounded loops.
 * memset keeps CBMC's built-in (the guarded loop was the slow variant there).  The engine passes
 * --unwindset for these loops. */
#ifndef LL2C_MAXCPY
#define LL2C_MAXCPY 32
#endif
#if defined(__CPROVER__)
void ll2c_memcpy(uint8_t* d, const uint8_t* s, uint64_t n) { __CPROVER_assert(n <= LL2C_MAXCPY, "MODEL: copy within modelled bound"); for (unsigned k = 0; k < LL2C_MAXCPY; k++) if (k < n) d[k] = s[k]; }
/* memmove: one guarded pass, direction chosen like the C library does (overlap-safe) */
void ll2c_memmove(uint8_t* d, const uint8_t* s, uint64_t n) {
  __CPROVER_assert(n <= LL2C_MAXCPY, "MODEL: copy within modelled bound");
  if ((uint64_t)d <= (uint64_t)s) { for (unsigned k = 0; k < LL2C_MAXCPY; k++) if (k < n) d[k] = s[k]; }
  else { for (unsigned k = LL2C_MAXCPY; k-- > 0;) if (k < n) d[k] = s[k]; }
}
void ll2c_memcpy_c(uint8_t* d, const uint8_t* s, uint64_t n) { __CPROVER_assert(n <= 4 * LL2C_MAXCPY, "MODEL: copy within modelled bound"); for (unsigned k = 0; k < n; k++) d[k] = s[k]; }
void ll2c_memmove_c(uint8_t* d, const uint8_t* s, uint64_t n) { uint8_t t[4 * LL2C_MAXCPY]; __CPROVER_assert(n <= 4 * LL2C_MAXCPY, "MODEL: copy within modelled bound"); for (unsigned k = 0; k < n; k++) t[k] = s[k]; for (unsigned k = 0; k < n; k++) d[k] = t[k]; }
void ll2c_memset_c(uint8_t* d, uint8_t c, uint64_t n) { __CPROVER_assert(n <= 4 * LL2C_MAXCPY, "MODEL: set within modelled bound"); for (unsigned k = 0; k < n; k++) d[k] = c; }
void ll2c_memset(uint8_t* d, uint8_t c, uint64_t n) { memset(d, c, n); }
#else
static inline void ll2c_memcpy(uint8_t* d, const uint8_t* s, uint64_t n) { memcpy(d, s, n); }
static inline void ll2c_memmove(uint8_t* d, const uint8_t* s, uint64_t n) { memmove(d, s, n); }
static inline void ll2c_memset(uint8_t* d, uint8_t c, uint64_t n) { memset(d, c, n); }
#define ll2c_memcpy_c ll2c_memcpy
#define ll2c_memmove_c ll2c_memmove
#define ll2c_memset_c ll2c_memset
#endif
static inline void ll2c_unreachable(void) { __CPROVER_assert(0, "NORETURN: llvm unreachable executed"); __CPROVER_assume(0); }
static inline void ll2c_noreturn(const char* what) { (void)what; __CPROVER_assert(0, "NORETURN: noreturn call (throw/abort) reached"); __CPROVER_assume(0); }
static inline uint64_t ll2c_ctlz(uint64_t v, unsigned bits) { if (v == 0) return bits; unsigned n = 0; uint64_t x = v; if (!(x >> 32)) { n += 32; x <<= 32; } if (!(x >> 48)) { n += 16; x <<= 16; } if (!(x >> 56)) { n += 8; x <<= 8; } if (!(x >> 60)) { n += 4; x <<= 4; } if (!(x >> 62)) { n += 2; x <<= 2; } if (!(x >> 63)) { n += 1; } return n - (64 - bits); }
static inline uint64_t ll2c_cttz(uint64_t v, unsigned bits) { if (v == 0) return bits; unsigned n = 0; uint64_t x = v; if (!(x & 0xffffffffULL)) { n += 32; x >>= 32; } if (!(x & 0xffff)) { n += 16; x >>= 16; } if (!(x & 0xff)) { n += 8; x >>= 8; } if (!(x & 0xf)) { n += 4; x >>= 4; } if (!(x & 3)) { n += 2; x >>= 2; } if (!(x & 1)) { n += 1; } return n; }
static inline uint64_t ll2c_ctpop(uint64_t v, unsigned bits) { (void)bits; v = v - ((v >> 1) & 0x5555555555555555ULL); v = (v & 0x3333333333333333ULL) + ((v >> 2) & 0x3333333333333333ULL); v = (v + (v >> 4)) & 0x0f0f0f0f0f0f0f0fULL; return (v * 0x0101010101010101ULL) >> 56; }
static inline uint64_t ll2c_bswap(uint64_t v, unsigned bits) { uint64_t r = 0; for (unsigned i = 0; i < bits / 8; i++) r |= ((v >> (8 * i)) & 0xff) << (bits - 8 - 8 * i); return r; }
#endif
