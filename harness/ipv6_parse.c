/* {url,url_aggregator}::parse_ipv6 == the Standard's IPv6 parser followed by its serializer, for ALL byte strings of
 * length N (the text between the brackets): same success/failure, host kind IPV6, and the stored host is the
 * canonical serialisation of the parsed address. */
#define REF_V6_MAX (NN + 1)
#include "ipv6.h"
struct inputs { uint8_t in[NN]; };
#ifdef STUB_SER
/* compositional: serializers::ipv6 (checked on its own for all 2^128 addresses, harness/ipv6_ser.c) is replaced by a
 * stub that records the address it is given and returns the empty string */
static uint16_t vk_last_ipv6[8]; static int vk_ser_calls = 0;
void X__ZN3ada11serializers4ipv6B5cxx11ERKSt5arrayItLm8EE(uint8_t* sret, uint8_t* addr) {
  for (unsigned i = 0; i < 8; i++) vk_last_ipv6[i] = (uint16_t)(addr[2 * i] | (addr[2 * i + 1] << 8));
  vk_ser_calls++;
  *(uint8_t**)sret = sret + 16; *(uint64_t*)(sret + 8) = 0; sret[16] = 0;
}
#endif
void harness(void) {
  INPUTS(I);
  VK_INIT_ALL();
  uint8_t* in = h_exact(I.in, N);
  uint8_t out[48] = {0}, exp[48] = {0};
  uint64_t r = KERNEL(in, N, out, 48, 0, 0);
  int ok = r & 1; unsigned host_type = (r >> 8) & 255; int is_valid = (r >> 16) & 1; uint64_t len = r >> 32;
  uint16_t a[8];
  int eok = ref_ipv6_parse(I.in, N, a);
  CHECK(ok == eok, "parse_ipv6 succeeds exactly when the Standard's IPv6 parser does");
#ifdef STUB_SER
  if (ok && eok) {
    CHECK(host_type == 2, "host kind is IPV6");
    CHECK(vk_ser_calls == 1, "the parsed address is serialised exactly once");
    int same = 1; for (unsigned i = 0; i < 8; i++) if (vk_last_ipv6[i] != a[i]) same = 0;
    CHECK(same, "the parsed 128-bit address equals the Standard's");
    REACH("an IPv6 address was accepted");
  } else if (!ok) CHECK(is_valid == 0, "failure marks the URL invalid");
  (void)len; (void)exp;
  return;
#endif
  if (ok && eok) {
    uint64_t xl = ref_ipv6_serialize(a, exp);
    CHECK(host_type == 2, "host kind is IPV6");
    CHECK(len == xl, "serialised length");
    CHECK(xl <= 41 && h_eq(out, exp, xl), "stored host is the canonical serialisation of the parsed address");
    REACH("an IPv6 address was accepted");
  } else if (!ok) CHECK(is_valid == 0, "failure marks the URL invalid");
}
