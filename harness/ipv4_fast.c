/* checkers::try_parse_ipv4_fast (the pure-decimal shortcut; scalar or AVX-512 build): whenever it ACCEPTS an input,
 * the Standard's IPv4 parser accepts the same input with the same address AND the input text (minus one optional
 * trailing dot) already is the canonical dotted-decimal serialisation (the callers store the text verbatim).
 * All byte strings of length N. */
#include "ipv4.h"
struct inputs { uint8_t in[NN]; };
void harness(void) {
  INPUTS(I);
  VK_INIT_ALL();
  uint8_t* in = h_exact(I.in, N);
  uint64_t r = KERNEL(in, N, 0, 0, 0, 0);
  CHECK(r <= REF_IPV4_FAIL, "result is an address or the failure sentinel");
  if (r < REF_IPV4_FAIL) {
    uint64_t e = ref_ipv4_parse(in, N);
    CHECK(e == r, "shortcut address equals the Standard's IPv4 parser");
    uint8_t exp[16]; uint64_t el = ref_ipv4_serialize(r, exp);
    uint64_t tl = (N > 0 && in[N - 1] == '.') ? N - 1 : N;
    CHECK(tl == el && h_eq(in, exp, el), "accepted text is already the canonical serialisation");
    REACH("fast path accepted");
  }
#ifdef COMPLETE
  else {
    /* completeness on the shortcut's own domain: canonical dotted decimal (optionally one trailing dot) is accepted */
    uint64_t e = ref_ipv4_parse(in, N);
    if (e != REF_IPV4_FAIL) {
      uint8_t exp[16]; uint64_t el = ref_ipv4_serialize(e, exp);
      uint64_t tl = (N > 0 && in[N - 1] == '.') ? N - 1 : N;
      CHECK(!(tl == el && h_eq(in, exp, el)), "canonical dotted decimal is accepted by the shortcut");
    }
  }
#endif
}
