// Native base case for C14 / C15 (NOT a solver result): the URLPattern top level (constructor-string parser, regex
// generation, std::regex matching, result building) is beyond the IR -> C -> CBMC pipeline, so the whole-API
// statements are exercised natively on the repository's own WPT corpus tests/wpt/urlpatterntestdata.json, which the
// pinned suite does not run (wpt_urlpattern_tests does not build in this image).  vectors.txt is generated from the
// JSON by lib/tv.py on every run; strings are hex-encoded.
//   C15: construction fails exactly when the vector says "error"; component pattern strings equal expected_obj;
//        exactly_empty_components are empty.
//   C14: test() == exec().has_value() (and both fail together); expected_match (inputs, per-component input and
//        groups) is reproduced; every pattern compiled with all components forced to the regular-expression mode
//        (hook ADA_URL_ADA_VERIF) gives the same test()/exec() answers as the normal compilation, on its own inputs AND
//        on the inputs of every other vector (cross product).
#include "ada.h"
#include "ada/url_pattern.h"
#include "ada/url_pattern_helpers.h"
#include "ada/parser.h"
#include <cstdio>
#include <fstream>
#include <map>
#include <sstream>
#include <string>
#include <vector>
using RP = ada::url_pattern_regex::std_regex_provider;
using Pattern = ada::url_pattern<RP>;
static std::string unhex(const std::string& h) { std::string r; for (size_t i = 0; i + 1 < h.size(); i += 2) r.push_back(char(std::stoi(h.substr(i, 2), nullptr, 16))); return r; }
struct Arg { bool is_str = false; std::string s; ada::url_pattern_init init; };
struct Comp { std::string input; std::map<std::string, std::string> groups; };
struct Vec {
  int idx = 0; Arg pat; bool has_pbase = false; std::string pbase; bool has_opt = false; bool ignore_case = false;
  bool eo_error = false; std::map<std::string, std::string> eo; std::vector<std::string> ee;
  bool has_input = false; Arg in; bool has_ibase = false; std::string ibase;
  int em = 0;  // 0 none, 1 error, 2 null, 3 object
  bool skipm = false; bool has_einputs = false; std::vector<Arg> einputs; std::map<std::string, Comp> ecomp;
};
static void set_field(ada::url_pattern_init& i, const std::string& k, const std::string& v) {
  if (k == "protocol") i.protocol = v; else if (k == "username") i.username = v; else if (k == "password") i.password = v;
  else if (k == "hostname") i.hostname = v; else if (k == "port") i.port = v; else if (k == "pathname") i.pathname = v;
  else if (k == "search") i.search = v; else if (k == "hash") i.hash = v; else if (k == "baseURL") i.base_url = v;
}
static Arg parse_arg(std::istringstream& ss) {
  Arg a; std::string kind; ss >> kind;
  if (kind == "S") { std::string h; ss >> h; a.is_str = true; a.s = unhex(h == "-" ? "" : h); }
  else { std::string kv; while (ss >> kv) { auto p = kv.find('='); std::string v = kv.substr(p + 1); set_field(a.init, kv.substr(0, p), unhex(v == "-" ? "" : v)); } }
  return a;
}
static tl::expected<Pattern, ada::errors> build(const Vec& v) {
  std::string_view base(v.pbase); ada::url_pattern_options o{.ignore_case = v.ignore_case};
  if (v.pat.is_str) return ada::parse_url_pattern<RP>(std::string_view(v.pat.s), v.has_pbase ? &base : nullptr, v.has_opt ? &o : nullptr);
  return ada::parse_url_pattern<RP>(v.pat.init, v.has_pbase ? &base : nullptr, v.has_opt ? &o : nullptr);
}
static std::string comp_str(const ada::url_pattern_component_result& c) {
  std::map<std::string, std::string> g; for (auto& [k, val] : c.groups) g[k] = val ? *val : std::string("\x01undefined");
  std::string r = "input=" + c.input + " groups={"; for (auto& [k, val] : g) r += k + ":" + val + ","; return r + "}";
}
static std::string result_str(const ada::url_pattern_result& r) {
  return "protocol " + comp_str(r.protocol) + " username " + comp_str(r.username) + " password " + comp_str(r.password) + " hostname " + comp_str(r.hostname) +
         " port " + comp_str(r.port) + " pathname " + comp_str(r.pathname) + " search " + comp_str(r.search) + " hash " + comp_str(r.hash);
}
// outcome of test()+exec() as one string; sets `coherent` to false when test() and exec() disagree
static std::string outcome(Pattern& p, const Arg& in, bool has_base, const std::string& base, bool& coherent, ada::url_pattern_result* keep = nullptr) {
  std::string_view b(base);
  ada::url_pattern_input inp = in.is_str ? ada::url_pattern_input(std::string_view(in.s)) : ada::url_pattern_input(in.init);
  auto t = p.test(inp, has_base ? &b : nullptr);
  auto e = p.exec(inp, has_base ? &b : nullptr);
  if (!t || !e) { if (bool(t) != bool(e)) coherent = false; return "error"; }
  if (*t != e->has_value()) coherent = false;
  if (!e->has_value()) return "null";
  if (keep) *keep = **e;
  return result_str(**e);
}
static std::string arg_str(const Arg& a) {
  if (a.is_str) return "S:" + a.s;
  auto f = [](const std::optional<std::string>& o) { return o ? "=" + *o : std::string("~"); };
  return "I:" + f(a.init.protocol) + "|" + f(a.init.username) + "|" + f(a.init.password) + "|" + f(a.init.hostname) + "|" + f(a.init.port) + "|" + f(a.init.pathname) + "|" + f(a.init.search) + "|" + f(a.init.hash) + "|" + f(a.init.base_url);
}
int main(int argc, char** argv) {
  std::ifstream f(argv[1]); std::string line; std::vector<Vec> vecs; Vec cur; std::string ccomp;
  while (std::getline(f, line)) {
    std::istringstream ss(line); std::string tag; ss >> tag;
    if (tag == "V") { cur = Vec(); ss >> cur.idx; }
    else if (tag == "P") cur.pat = parse_arg(ss);
    else if (tag == "PB") { std::string h; ss >> h; cur.has_pbase = true; cur.pbase = unhex(h == "-" ? "" : h); }
    else if (tag == "PO") { int b; ss >> b; cur.has_opt = true; cur.ignore_case = b; }
    else if (tag == "EO") { std::string kv; while (ss >> kv) { if (kv == "error") { cur.eo_error = true; continue; } auto p = kv.find('='); std::string v = kv.substr(p + 1); cur.eo[kv.substr(0, p)] = unhex(v == "-" ? "" : v); } }
    else if (tag == "EE") { std::string k; while (ss >> k) cur.ee.push_back(k); }
    else if (tag == "I") { cur.has_input = true; cur.in = parse_arg(ss); }
    else if (tag == "IB") { std::string h; ss >> h; cur.has_ibase = true; cur.ibase = unhex(h == "-" ? "" : h); }
    else if (tag == "EM") { std::string k; ss >> k; cur.em = k == "error" ? 1 : k == "null" ? 2 : 3; }
    else if (tag == "SKIPM") cur.skipm = true;
    else if (tag == "EI") { cur.has_einputs = true; std::string rest; std::getline(ss, rest); if (rest.find_first_not_of(' ') != std::string::npos) { std::istringstream s2(rest); cur.einputs.push_back(parse_arg(s2)); } }
    else if (tag == "C") { std::string h; ss >> ccomp >> h; cur.ecomp[ccomp].input = unhex(h == "-" ? "" : h); }
    else if (tag == "G") { std::string kh, vh; ss >> kh >> vh; cur.ecomp[ccomp].groups[unhex(kh == "-" ? "" : kh)] = unhex(vh == "-" ? "" : vh); }
    else if (tag == "END") vecs.push_back(cur);
  }
  vecs.reserve(vecs.size() + 512);   // hand-picked inputs are appended below while pointers to the vectors are held
  unsigned long c15 = 0, c15bad = 0, c14 = 0, c14bad = 0;
  auto fail15 = [&](const Vec& v, const std::string& what) { c15bad++; if (c15bad <= 6) printf("UPVEC-FAIL C15 vector#%d %s\n", v.idx, what.c_str()); };
  auto fail14 = [&](const Vec& v, const std::string& what) { c14bad++; if (c14bad <= 6) printf("UPVEC-FAIL C14 vector#%d %s\n", v.idx, what.c_str()); };
  std::vector<std::pair<const Vec*, Pattern>> normal, forced;
  for (auto& v : vecs) {
    ada::url_pattern_verif_force_regexp = false;
    auto p = build(v);
    ada::url_pattern_verif_force_regexp = true;
    auto q = build(v);
    ada::url_pattern_verif_force_regexp = false;
    c15++;
    if (v.eo_error) { if (p) fail15(v, "construction should fail but succeeded"); continue; }
    if (!p) { fail15(v, "construction should succeed but failed"); continue; }
    c14++;
    if (!q) { fail14(v, "construction fails only when the components are forced to the regular-expression mode"); continue; }
    auto get = [&](Pattern& x, const std::string& k) -> std::string {
      return std::string(k == "protocol" ? x.get_protocol() : k == "username" ? x.get_username() : k == "password" ? x.get_password() : k == "hostname" ? x.get_hostname() :
                         k == "port" ? x.get_port() : k == "pathname" ? x.get_pathname() : k == "search" ? x.get_search() : x.get_hash()); };
    for (auto& [k, want] : v.eo) { c15++; if (get(*p, k) != want) fail15(v, "component " + k + ": got '" + get(*p, k) + "' expected '" + want + "'"); }
    for (auto& k : v.ee) { c15++; if (!get(*p, k).empty()) fail15(v, "component " + k + " should be exactly empty, got '" + get(*p, k) + "'"); }
    for (const char* k : {"protocol", "username", "password", "hostname", "port", "pathname", "search", "hash"}) { c14++; if (get(*p, k) != get(*q, k)) fail14(v, std::string("pattern string of ") + k + " depends on the execution mode"); }
    if (v.has_input) {
      bool coh = true; ada::url_pattern_result res;
      std::string o = outcome(*p, v.in, v.has_ibase, v.ibase, coh, &res);
      c14++;
      if (!coh) fail14(v, "test() and exec() disagree on the vector's own input");
      c14++;
      if (v.em == 1 && o != "error") fail14(v, "expected_match error, got " + o.substr(0, 80));
      else if (v.em == 2 && o != "null") fail14(v, "expected_match null, got " + o.substr(0, 120));
      else if (v.em == 3 && (o == "null" || o == "error")) fail14(v, "expected a match, got " + o);
      else if (v.em == 3 && !v.skipm) {
        ada::url_pattern_result want;
        auto fill = [&](ada::url_pattern_component_result& c, const char* k) {
          auto it = v.ecomp.find(k);
          if (it != v.ecomp.end()) { c.input = it->second.input; for (auto& [g, val] : it->second.groups) c.groups[g] = val; }
          else { c.input = ""; bool ee = false; for (auto& e : v.ee) if (e == k) ee = true; if (!ee) c.groups["0"] = ""; } };
        fill(want.protocol, "protocol"); fill(want.username, "username"); fill(want.password, "password"); fill(want.hostname, "hostname");
        fill(want.port, "port"); fill(want.pathname, "pathname"); fill(want.search, "search"); fill(want.hash, "hash");
        if (result_str(want) != o) fail14(v, "expected_match differs: got " + o + " expected " + result_str(want));
        if (v.has_einputs) {
          c14++;
          std::string gi, wi;
          for (auto& x : res.inputs) { Arg a; if (std::holds_alternative<std::string_view>(x)) { a.is_str = true; a.s = std::string(std::get<std::string_view>(x)); } else a.init = std::get<ada::url_pattern_init>(x); gi += arg_str(a) + ";"; }
          for (auto& a : v.einputs) wi += arg_str(a) + ";";
          if (gi != wi) fail14(v, "result.inputs differ: got " + gi + " expected " + wi);
        }
      }
    }
    normal.emplace_back(&v, std::move(*p)); forced.emplace_back(&v, std::move(*q));
  }
  // hand-picked PATTERNS the corpus lacks (every scheme class as a literal protocol in front of a structured pathname, the
  // same with the protocol as a group / alternation, opaque-path schemes, ignoreCase); they take part in the cross
  // product below (normal vs forced-regexp compilation, test() vs exec()) but carry no expectation of their own
  {
    static const char* protos[] = {"file", "http", "https", "ws", "wss", "ftp", "data", "foo", "(file)", "(https)", "http{s}?", "*"};
    static const char* paths[] = {"/:name", "/docs/*?", "/:a/:b", "/a/*", ":x", "/", "*", "/:name?"};
    static std::vector<Vec> extra_patterns; extra_patterns.reserve(256);
    int id = 300000;
    for (auto pr : protos) for (auto pa : paths) for (int ic = 0; ic < 2; ic++) {
      Vec w; w.idx = id++; w.pat.init.protocol = pr; w.pat.init.pathname = pa; if (ic) { w.has_opt = true; w.ignore_case = true; }
      extra_patterns.push_back(w);
    }
    for (auto& w : extra_patterns) {
      ada::url_pattern_verif_force_regexp = false; auto p = build(w);
      ada::url_pattern_verif_force_regexp = true; auto q = build(w);
      ada::url_pattern_verif_force_regexp = false;
      c14++;
      if (bool(p) != bool(q)) { fail14(w, "construction outcome depends on the execution mode"); continue; }
      if (!p) continue;
      normal.emplace_back(&w, std::move(*p)); forced.emplace_back(&w, std::move(*q));
    }
    static const char* more_inputs[][2] = {{"file:///foo", nullptr}, {"file:///docs/a/b", nullptr}, {"file:///C:/x/y", nullptr}, {"data:text/plain,hi", nullptr}, {"foo:bar/baz", nullptr},
      {"https://example.com/a/b", nullptr}, {"ftp://h/a/b/c", nullptr}, {"ws://h/", nullptr}, {"foo://h/a", nullptr}, {"FILE:///foo", nullptr}};
    static std::vector<Vec> mi; mi.reserve(32);
    for (auto& e : more_inputs) { Vec w; w.idx = 400000 + int(&e - more_inputs); w.has_input = true; w.in.is_str = true; w.in.s = e[0]; mi.push_back(w); }
    { Vec w; w.idx = 400100; w.has_input = true; w.in.init.protocol = "file"; w.in.init.pathname = "/x/y"; mi.push_back(w); }
    { Vec w; w.idx = 400101; w.has_input = true; w.in.init.protocol = "file"; w.in.init.pathname = "/foo"; mi.push_back(w); }
    { Vec w; w.idx = 400102; w.has_input = true; w.in.init.protocol = "data"; w.in.init.pathname = "text/plain"; mi.push_back(w); }
    for (auto& w : mi) vecs.push_back(w);
  }
  // hand-picked (input, base) pairs the corpus lacks: inputs with a scheme of their own that are still relative to the
  // base, unparsable / empty bases, relative references of every kind, credentials and ports
  {
    static const char* extra[][2] = {{"https:intro.html", "https://example.com/docs/guide/"}, {"http:x", "http://h/a/b"}, {"https://example.com/a", "not a url"},
      {"https://example.com/a", ""}, {"file:foo", "file:///d/"}, {"/rel", "https://example.com/x?y#z"}, {"?q=1", "https://example.com/p"}, {"#f", "https://example.com/p?q"},
      {"//other.host/p", "https://example.com/"}, {"ws:a", "ws://h/"}, {"", "https://example.com/"}, {"https://user:pw@example.com:8443/p?q#f", nullptr},
      {"data:text/plain,hi", nullptr}, {"https://EXAMPLE.com:443/%7e", nullptr}, {"https://example.com/foo/bar", nullptr}, {"http://example.com:80/?#", nullptr},
      {"rel/ative", "data:opaque"}, {"https:/other", "https://example.com/x"}, {"wss:?q", "wss://h/p"}};
    static std::vector<Vec> extras; extras.reserve(64);
    for (auto& e : extra) { Vec w; w.idx = 100000 + int(&e - extra); w.has_input = true; w.in.is_str = true; w.in.s = e[0]; if (e[1]) { w.has_ibase = true; w.ibase = e[1]; } extras.push_back(w); }
    for (auto& w : extras) vecs.push_back(w);
  }
  // cross product: every constructed pattern x every input of the corpus, normal vs forced-regexp compilation
  for (size_t i = 0; i < normal.size(); i++) for (auto& w : vecs) {
    if (!w.has_input) continue;
    bool coh = true, coh2 = true;
    std::string a = outcome(normal[i].second, w.in, w.has_ibase, w.ibase, coh);
    std::string b = outcome(forced[i].second, w.in, w.has_ibase, w.ibase, coh2);
    c14++;
    if (!coh || !coh2) fail14(*normal[i].first, "test() and exec() disagree on the input of vector#" + std::to_string(w.idx));
    else if (a != b) fail14(*normal[i].first, "answer depends on the execution mode for the input of vector#" + std::to_string(w.idx) + ": shortcut " + a.substr(0, 160) + " regexp " + b.substr(0, 160));
  }
  // C15 "shortcuts for 'simple' values never change the outcome": canonicalize_hostname's fast path (simple bytes and
  // not IPv4-shaped) against the full path it abbreviates (dummy https URL + hostname setter), on dotted combinations of
  // labels that look like names, decimal / octal / hex numbers, empty labels and hyphens, with and without a final dot
  {
    static const char* labels[] = {"example", "a", "-", "0", "1", "09", "0x10", "256", "x1", "0x", "4294967296", "com", "1e3", ""};
    const int NL = sizeof labels / sizeof labels[0];
    Vec dummy; dummy.idx = 200000;
    auto one = [&](const std::string& h) {
      auto fast = ada::url_pattern_helpers::canonicalize_hostname(h);
      auto url = ada::parse<ada::url_aggregator>("https://dummy.test", nullptr);
      bool ok = !h.empty() ? url->set_hostname(h) : true;
      std::string slow = h.empty() ? std::string() : std::string(url->get_hostname());
      c15++;
      if (bool(fast) != ok) fail15(dummy, "canonicalize_hostname('" + h + "') " + (fast ? "succeeds" : "fails") + " but the URL parser's hostname state " + (ok ? "accepts it" : "rejects it"));
      else if (fast && *fast != slow) fail15(dummy, "canonicalize_hostname('" + h + "') = '" + *fast + "' but the URL parser gives '" + slow + "'");
    };
    for (int a = 0; a < NL; a++) { one(labels[a]); one(std::string(labels[a]) + ".");
      for (int b = 0; b < NL; b++) { std::string ab = std::string(labels[a]) + "." + labels[b]; one(ab); one(ab + ".");
        for (int c = 0; c < NL; c++) { std::string abc = ab + "." + labels[c]; one(abc); one(abc + ".");
          for (int d = 0; d < NL; d += 2) one(abc + "." + labels[d]); } } }
  }
  printf("UPVEC C15 runs=%lu bad=%lu\nUPVEC C14 runs=%lu bad=%lu\n", c15, c15bad, c14, c14bad);
  return 0;
}
