/* checkers::verify_dns_length (behind has_valid_domain, C10) == the DNS length limits, for EVERY byte string of
 * length N: non-empty; at most 253 bytes, or 254 when the last byte is the root dot; every label 1..63 bytes, where
 * only the empty label after a final dot is permitted.  The reference is one left-to-right pass with a constant trip
 * count.  With DOTS_ONLY_AT the string is restricted to the two-letter alphabet {'.', other} - which is all the
 * function can distinguish - by leaving the bytes symbolic but unconstrained: nothing to assume. */
#ifdef DOTS2
/* long inputs (the 63 / 253 / 254 boundaries): restricted to strings with AT MOST TWO dots, at symbolic positions p, q
 * (every other byte symbolic but not a dot) - the stated input class of the dns_len2_* queries */
struct inputs { uint8_t in[NN]; uint16_t p, q; };
#else
struct inputs { uint8_t in[NN]; };
#endif
static int ref_dns_length(const uint8_t* s, unsigned n) {
  if (n == 0) return 0;
  if (s[n - 1] == '.') { if (n > 254) return 0; } else if (n > 253) return 0;
  unsigned cur = 0; int ok = 1;
  for (unsigned i = 0; i < N; i++) {
    if (s[i] == '.') { if (cur == 0 || cur > 63) ok = 0; cur = 0; }
    else cur++;
  }
  if (cur > 63) ok = 0;
  return ok;
}
void harness(void) {
  INPUTS(I);
  VK_INIT_ALL();
#ifdef DOTS2
  for (unsigned i = 0; i < N; i++) ASSUME((I.in[i] == '.') == (i == I.p || i == I.q));
#endif
  uint8_t* in = h_exact(I.in, N);
  uint64_t r = KERNEL(in, N, 0, 0, 0, 0);
  int e = ref_dns_length(in, N);
  CHECK((r != 0) == (e != 0), "verify_dns_length equals the DNS length limits (labels 1..63, total 253 / 254 with root dot)");
  if (r) REACH("a valid DNS length");
}
