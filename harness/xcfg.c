/* Build-configuration independence (C18): the same kernel translated from two builds of the real library
 * (KERNEL_A / KERNEL_B) returns the same value and writes the same bytes for ALL inputs of length N
 * (and all start offsets P0 <= N when WITH_P0). */
struct inputs { uint8_t in[NN]; uint64_t p0; };
#ifndef OUTCAP
#define OUTCAP 1
#endif
void harness(void) {
  INPUTS(I);
  VK_INIT_ALL();
  uint8_t* a = h_exact(I.in, N);
  uint8_t* b = h_exact(I.in, N);
  uint64_t p0 = 0;
#ifdef WITH_P0
  p0 = I.p0; ASSUME(p0 <= N);
#endif
#ifdef PRECOND
  PRECOND;
#endif
  uint8_t oa[OUTCAP] = {0}, ob[OUTCAP] = {0};
  uint64_t ra = KERNEL_A(a, N, oa, OUTCAP, p0, 0);
  uint64_t rb = KERNEL_B(b, N, ob, OUTCAP, p0, 0);
  CHECK(ra == rb, "same result in both build configurations");
  CHECK(h_eq(oa, ob, OUTCAP), "same output bytes in both build configurations");
  if (ra != 0 && ra != N) REACH("interesting result");
}
