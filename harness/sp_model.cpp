// Native base case for C12 (NOT a solver result): url_search_params against the URL Standard's list-of-pairs model over
// deterministic pseudo-random HISTORIES of append / set / remove / has / get / get_all / sort / reset / iteration
// (the solver obligations cover the byte-level kernels and the comparator; vector<pair<string,string>> histories are out of
// its reach).  After every operation: size, every pair (operator[] and the three iterators) and to_string() must equal the
// model's; has/get/get_all answers must equal the model's.
#include "ada.h"
extern "C" {
#include "ada_c.h"
}
#include <cstdio>
#include <string>
#include <vector>
using P = std::pair<std::string, std::string>;
static std::vector<uint16_t> utf16(const std::string& s) {
  std::vector<uint16_t> o; const unsigned char* p = (const unsigned char*)s.data(); size_t n = s.size(), i = 0;
  while (i < n) { uint32_t c;
    if (p[i] < 0x80) c = p[i++]; else if (p[i] < 0xE0) { c = ((p[i] & 0x1f) << 6) | (p[i + 1] & 0x3f); i += 2; }
    else if (p[i] < 0xF0) { c = ((p[i] & 0x0f) << 12) | ((p[i + 1] & 0x3f) << 6) | (p[i + 2] & 0x3f); i += 3; }
    else { c = ((p[i] & 7) << 18) | ((p[i + 1] & 0x3f) << 12) | ((p[i + 2] & 0x3f) << 6) | (p[i + 3] & 0x3f); i += 4; }
    if (c >= 0x10000) { c -= 0x10000; o.push_back(0xD800 + (c >> 10)); o.push_back(0xDC00 + (c & 0x3ff)); } else o.push_back(uint16_t(c)); }
  return o;
}
static std::string enc(const std::string& s) {   // application/x-www-form-urlencoded byte serializer
  static const char H[] = "0123456789ABCDEF"; std::string o;
  for (unsigned char c : s) { if (c == ' ') o += '+'; else if ((c >= '0' && c <= '9') || (c >= 'a' && c <= 'z') || (c >= 'A' && c <= 'Z') || c == '*' || c == '-' || c == '.' || c == '_') o += char(c); else { o += '%'; o += H[c >> 4]; o += H[c & 15]; } }
  return o;
}
static std::string ser(const std::vector<P>& m) { std::string o; for (size_t i = 0; i < m.size(); i++) { if (i) o += '&'; o += enc(m[i].first) + "=" + enc(m[i].second); } return o; }
static int hexv(char c) { return c >= '0' && c <= '9' ? c - '0' : (c | 0x20) >= 'a' && (c | 0x20) <= 'f' ? (c | 0x20) - 'a' + 10 : -1; }
static std::string dec(std::string s) { for (auto& c : s) if (c == '+') c = ' '; std::string o; for (size_t i = 0; i < s.size(); i++) { if (s[i] == '%' && i + 2 < s.size() + 0 && i + 2 <= s.size() - 1 + 0 && hexv(s[i + 1]) >= 0 && hexv(s[i + 2]) >= 0) { o += char(hexv(s[i + 1]) * 16 + hexv(s[i + 2])); i += 2; } else o += s[i]; } return o; }
static std::vector<P> parse(const std::string& in) {   // application/x-www-form-urlencoded parser
  std::vector<P> m; size_t b = 0;
  std::string s = in; if (!s.empty() && s[0] == '?') s = s.substr(1);
  while (b <= s.size()) { size_t e = s.find('&', b); if (e == std::string::npos) e = s.size(); std::string piece = s.substr(b, e - b); b = e + 1;
    if (piece.empty()) continue; size_t q = piece.find('='); std::string k = q == std::string::npos ? piece : piece.substr(0, q), v = q == std::string::npos ? "" : piece.substr(q + 1);
    m.emplace_back(dec(k), dec(v)); }
  return m;
}
int main() {
  static const char* K[] = {"a", "b", "c", "aa", "", "z", "\xEF\xBD\xA1", "\xF0\x90\x80\x80", "a b", "m"};
  static const char* V[] = {"1", "2", "", "x y", "&=", "%41", "+", "\xC3\xA9", "v"};
  static const char* INIT[] = {"", "a=1&b=2&a=3", "?z=9&&c=&=e&a", "a+b=x%20y&%41=%zz&a=1", "m=1&z=2&c=3"};
  unsigned long runs = 0, bad = 0; uint32_t lcg = 2026;
  auto rnd = [&](unsigned n) { lcg = lcg * 1664525u + 1013904223u; return (lcg >> 16) % n; };
  for (unsigned h = 0; h < 6000; h++) {
    std::string init = INIT[rnd(5)];
    ada::url_search_params sp(init); std::vector<P> m = parse(init);
    /* C API handle driven in lock-step (C17) */ ada_url_search_params cp = ada_parse_search_params(init.data(), init.size()); std::string hist = "init('" + init + "')";
    for (unsigned step = 0; step < 14; step++) {
      std::string k = K[rnd(10)], v = V[rnd(9)]; unsigned op = rnd(11); std::string what;
      switch (op) {
        case 0: case 1: ada_search_params_append(cp, k.data(), k.size(), v.data(), v.size()); sp.append(k, v); m.emplace_back(k, v); hist += " append(" + k + "," + v + ")"; break;
        case 2: case 3: { ada_search_params_set(cp, k.data(), k.size(), v.data(), v.size()); sp.set(k, v); bool f = false; for (size_t i = 0; i < m.size();) { if (m[i].first == k) { if (!f) { m[i].second = v; f = true; i++; } else m.erase(m.begin() + i); } else i++; } if (!f) m.emplace_back(k, v); hist += " set(" + k + "," + v + ")"; break; }
        case 4: ada_search_params_remove(cp, k.data(), k.size()); sp.remove(k); for (size_t i = 0; i < m.size();) { if (m[i].first == k) m.erase(m.begin() + i); else i++; } hist += " remove(" + k + ")"; break;
        case 5: ada_search_params_remove_value(cp, k.data(), k.size(), v.data(), v.size()); sp.remove(k, v); for (size_t i = 0; i < m.size();) { if (m[i].first == k && m[i].second == v) m.erase(m.begin() + i); else i++; } hist += " remove(" + k + "," + v + ")"; break;
        case 6: case 7: { ada_search_params_sort(cp); sp.sort(); std::vector<P> s2; for (auto& e : m) { size_t j = s2.size(); while (j > 0 && utf16(e.first) < utf16(s2[j - 1].first)) j--; s2.insert(s2.begin() + j, e); } m = s2; hist += " sort()"; break; }
        case 8: { bool a = sp.has(k), b = false; for (auto& e : m) if (e.first == k) b = true; bool a2 = sp.has(k, v), b2 = false; for (auto& e : m) if (e.first == k && e.second == v) b2 = true; if (a != b || a2 != b2) what = "has(" + k + ")"; if (ada_search_params_has(cp, k.data(), k.size()) != b || ada_search_params_has_value(cp, k.data(), k.size(), v.data(), v.size()) != b2) what = "C API has/has_value(" + k + "," + v + ")"; hist += " has(" + k + ")"; break; }
        case 9: { auto g = sp.get(k); const P* f = nullptr; for (auto& e : m) if (e.first == k) { f = &e; break; } if (bool(g) != bool(f) || (g && std::string(*g) != f->second)) what = "get(" + k + ")"; auto all = sp.get_all(k); std::vector<std::string> wa; for (auto& e : m) if (e.first == k) wa.push_back(e.second); if (all != wa) what = "get_all(" + k + ")"; { ada_string cg = ada_search_params_get(cp, k.data(), k.size()); if (f ? (cg.data == nullptr || std::string(cg.data, cg.length) != f->second) : (cg.length != 0)) what = "C API get(" + k + ")"; ada_strings ca = ada_search_params_get_all(cp, k.data(), k.size()); if (ada_strings_size(ca) != wa.size()) what = "C API get_all size"; else for (size_t i = 0; i < wa.size(); i++) { ada_string e = ada_strings_get(ca, i); if (std::string(e.data, e.length) != wa[i]) what = "C API get_all"; } ada_free_strings(ca); } hist += " get(" + k + ")"; break; }
        default: { std::string s = ser(m);
          // reset with an UNRELATED init string too - in particular the empty ones, which must still empty the list (seed C12-4)
          switch (rnd(6)) { case 0: s = ""; break; case 1: s = "?"; break; case 2: s = "&"; break; case 3: s = "x=1&&y&=z"; break; default: break; }
          if (rnd(2) && (s.empty() || s[0] != '?')) s = "?" + s; ada_search_params_reset(cp, s.data(), s.size()); sp.reset(s); m = parse(s); hist += " reset(" + s + ")"; break; }
      }
      runs++;
      if (what.empty()) {
        if (sp.size() != m.size()) what = "size";
        else { for (size_t i = 0; i < m.size(); i++) if (sp[i].first != m[i].first || sp[i].second != m[i].second) what = "pair " + std::to_string(i);
          if (what.empty() && sp.to_string() != ser(m)) what = "to_string '" + sp.to_string() + "' != '" + ser(m) + "'";
          if (what.empty()) { auto ks = sp.get_keys(); auto vs = sp.get_values(); auto es = sp.get_entries(); size_t i = 0;
            while (ks.has_next() && vs.has_next() && es.has_next() && i < m.size()) { auto kk = ks.next(); auto vv = vs.next(); auto ee = es.next(); if (!kk || !vv || !ee || *kk != m[i].first || *vv != m[i].second || ee->first != m[i].first || ee->second != m[i].second) what = "iterator at " + std::to_string(i); i++; }
            if (what.empty() && (i != m.size() || ks.has_next() || vs.has_next() || es.has_next())) what = "iterator length"; } }
      }
      if (what.empty()) {   // the C handle must show the same list
        if (ada_search_params_size(cp) != m.size()) what = "C API size";
        else { ada_owned_string os = ada_search_params_to_string(cp); if (std::string(os.data, os.length) != ser(m)) what = "C API to_string '" + std::string(os.data, os.length) + "' != '" + ser(m) + "'"; ada_free_owned_string(os);
          ada_url_search_params_entries_iter it = ada_search_params_get_entries(cp); size_t i = 0;
          while (ada_search_params_entries_iter_has_next(it) && i < m.size()) { ada_string_pair e = ada_search_params_entries_iter_next(it); if (std::string(e.key.data, e.key.length) != m[i].first || std::string(e.value.data, e.value.length) != m[i].second) what = "C API entries iterator at " + std::to_string(i); i++; }
          if (what.empty() && (i != m.size() || ada_search_params_entries_iter_has_next(it))) what = "C API entries iterator length";
          ada_free_search_params_entries_iter(it); }
      }
      if (!what.empty()) { bad++; if (bad <= 5) printf("SPMODEL-FAIL %s after: %s\n", what.c_str(), hist.c_str()); break; }
    }
    ada_free_search_params(cp);
  }
  printf("SPMODEL runs=%lu bad=%lu\n", runs, bad);
  return 0;
}
