/* Native corpus run for INV: every URL the REAL parser produces (with and without base) from the repository's
 * corpora must satisfy INV; otherwise INV (part of the claim of the step obligations) would be wrong. */
#define BN 250
#include <stdio.h>
#include <stdlib.h>
#include <string.h>
#include <stdint.h>
#include "inv.h"
extern uint64_t vk_parse_state(uint8_t*, uint64_t, uint8_t*, uint64_t, uint64_t, uint64_t);
static void unpack(struct st* s, const uint8_t* o) {
  for (unsigned i = 0; i < 8; i++) s->c[i] = (uint32_t)o[4 * i] | ((uint32_t)o[4 * i + 1] << 8) | ((uint32_t)o[4 * i + 2] << 16) | ((uint32_t)o[4 * i + 3] << 24);
  s->type = o[32]; s->opaque = o[33]; s->host_type = o[34]; s->L = o[35];
  memset(s->buf, 0, BN); memcpy(s->buf, o + 36, s->L);
}
static const char* BASES[] = {"http://1.2.3.4/a/b?q#f", "http://[::1]:8080/x", "file:///C:/d/", "sc://h/p", "sc:opaque path", "https://user:pw@example.com/", "ws://a.b", 0};
int main(int argc, char** argv) {
  FILE* f = fopen(argv[1], "rb"); if (!f) return 2;
  static uint8_t buf[600], in[900], out[36 + 300];
  unsigned long parsed = 0, bad = 0;
  for (;;) {
    uint32_t n; if (fread(&n, 4, 1, f) != 1) break;
    if (n > 500) return 2;
    if (n && fread(buf, 1, n, f) != n) return 2;
    for (int b = -1; b < 0 || BASES[b]; b++) {
      uint64_t bl = b < 0 ? 0 : strlen(BASES[b]);
      if (bl) memcpy(in, BASES[b], bl);
      memcpy(in + bl, buf, n);
      uint64_t r = vk_parse_state(in, bl + n, out, 36 + BN, bl, 0);
      if ((r & 0xff) != 1) continue;
      struct st s; unpack(&s, out);
      parsed++;
      if (!INV(&s)) { bad++; if (bad <= 8) printf("INV-FAIL base=%s input=%.*s href=%.*s host_type=%d\n", b < 0 ? "" : BASES[b], (int)n, buf, (int)s.L, s.buf, s.host_type); }
    }
  }
  printf("INVCORPUS parsed=%lu bad=%lu\n", parsed, bad);
  return bad ? 1 : 0;
}
