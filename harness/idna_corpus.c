/* Native base cases for C06 / C16 (NOT solver results; the Unicode tables are data the solver obligations abstract):
 *  mode N: ada::idna::normalize against NFC computed by Python's unicodedata for strings of code points assigned in that
 *          Unicode version (normalisation stability: their NFC is the same in every later version, hence in 17.0);
 *  mode A: the WPT vectors tests/wpt/toascii.json and IdnaTestV2.json through ada::unicode::to_ascii, as the
 *          repository's own (unbuilt) runner calls it; expected null = failure / empty result.
 * file format: records [u32 kind][u32 n][n bytes input][u32 m][m bytes expected]; kind 0 NFC (u32 LE code points),
 * 1 to_ascii expects output, 2 to_ascii expects failure */
#include <stdio.h>
#include <stdlib.h>
#include <string.h>
#include <stdint.h>
extern uint64_t vk_nfc_real(uint8_t*, uint64_t, uint8_t*, uint64_t, uint64_t, uint64_t);
extern uint64_t vk_to_ascii_vec(uint8_t*, uint64_t, uint8_t*, uint64_t, uint64_t, uint64_t);
int main(int argc, char** argv) {
  FILE* f = fopen(argv[1], "rb"); if (!f) return 2;
  static uint8_t in[1 << 16], want[1 << 16], out[1 << 16];
  unsigned long runs[3] = {0, 0, 0}, bad[3] = {0, 0, 0};
  for (;;) {
    uint32_t kind, n, m;
    if (fread(&kind, 4, 1, f) != 1) break;
    if (fread(&n, 4, 1, f) != 1 || n > sizeof in || (n && fread(in, 1, n, f) != n)) return 2;
    if (fread(&m, 4, 1, f) != 1 || m > sizeof want || (m && fread(want, 1, m, f) != m)) return 2;
    runs[kind]++;
    if (kind == 0) {
      uint64_t r = vk_nfc_real(in, n, out, sizeof out, 0, 0);
      if (r != m / 4 || memcmp(out, want, m)) {
        bad[0]++;
        if (bad[0] <= 5) { printf("IDNA-FAIL nfc input="); for (unsigned i = 0; i < n / 4; i++) printf("U+%04X ", ((uint32_t*)in)[i]); printf("got="); for (unsigned i = 0; i < r && i < 16; i++) printf("U+%04X ", ((uint32_t*)out)[i]); printf("expected="); for (unsigned i = 0; i < m / 4; i++) printf("U+%04X ", ((uint32_t*)want)[i]); printf("\n"); }
      }
    } else {
      uint64_t r = vk_to_ascii_vec(in, n, out, sizeof out, 0, 0);
      int failed = (r >> 32) != 0 || r == 0;
      int ok = kind == 2 ? failed : (!failed && r == m && !memcmp(out, want, m));
      if (!ok) { bad[kind]++; if (bad[1] + bad[2] <= 5) { printf("IDNA-FAIL to_ascii input="); for (unsigned i = 0; i < n; i++) printf(in[i] >= 32 && in[i] < 127 ? "%c" : "\\x%02x", in[i]); printf(" got=%.*s expected=%.*s%s\n", failed ? 7 : (int)r, failed ? "failure" : (char*)out, (int)m, want, kind == 2 ? "failure" : ""); } }
    }
  }
  printf("IDNACORPUS nfc runs=%lu bad=%lu toascii runs=%lu bad=%lu\n", runs[0], bad[0], runs[1] + runs[2], bad[1] + bad[2]);
  return 0;
}
