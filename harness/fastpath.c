/* try_parse_simple_absolute<url_aggregator> (the http(s) shortcut, C01): input = PREFIX ("http://" or "https://")
 * followed by ALL tails of length T.  Whenever the shortcut ACCEPTS, the input is of the class the URL Standard's
 * parser leaves unchanged (host only lower-cased, "/" inserted for an empty path):
 *   host bytes are ASCII non-forbidden domain code points, the host does not end in a number and has no "xn-";
 *   path bytes are outside the path percent-encode set and not '\\', no segment is a (possibly %2e-spelled) dot segment;
 *   query bytes are outside the special-query set, fragment bytes outside the fragment set;
 * and the produced object is exactly that URL: href = input with lower-cased host (+ "/"), offsets as the Standard's
 * serializer implies, INV holds. */
#include "inv.h"
#include "pct.h"
#include "ipv4.h"
#include "hostclass.h"
#ifndef HTTPS
#define PFX 7
static const uint8_t prefix[8] = {'h', 't', 't', 'p', ':', '/', '/', 0};
#else
#define PFX 8
static const uint8_t prefix[8] = {'h', 't', 't', 'p', 's', ':', '/', '/'};
#endif
#define TT ((T) > 0 ? (T) : 1)
#define NIN (PFX + T)
struct inputs { uint8_t tail[TT]; };
static void st_unpack(struct st* s, const uint8_t* o) {
  for (unsigned i = 0; i < 8; i++) s->c[i] = (uint32_t)o[4 * i] | ((uint32_t)o[4 * i + 1] << 8) | ((uint32_t)o[4 * i + 2] << 16) | ((uint32_t)o[4 * i + 3] << 24);
  s->type = o[32]; s->opaque = o[33]; s->host_type = o[34]; s->L = o[35];
}
static int dotseg(const uint8_t* p, uint32_t a, uint32_t b) {
  /* is p[a,b) one of ".", "..", "%2e", ".%2e", "%2e.", "%2e%2e" (ASCII case-insensitive)? */
  uint32_t i = a; unsigned dots = 0;
  for (unsigned k = 0; k < 2; k++) {
    if (i < b && p[i] == '.') { i++; dots++; }
    else if (i + 2 < b + 0 && i + 3 <= b && p[i] == '%' && p[i + 1] == '2' && (p[i + 2] | 0x20) == 'e') { i += 3; dots++; }
  }
  return dots >= 1 && i == b;
}
void harness(void) {
  INPUTS(I);
  VK_INIT_ALL();
  uint8_t full[NIN + 1];
  for (unsigned i = 0; i < PFX; i++) full[i] = prefix[i];
  for (unsigned i = 0; i < T; i++) full[PFX + i] = I.tail[i];
  uint8_t* in = h_exact(full, NIN);
  uint8_t out[36 + BN] = {0};
  uint64_t r = F_vk_fast_path(in, NIN, out, 36 + BN, 0, 0);
  if (r & 1) {
    struct st post; st_unpack(&post, out);
    for (unsigned i = 0; i < BN; i++) post.buf[i] = out[36 + i];
    uint64_t L2 = (r >> 16) & 0xffff;
    CHECK(L2 == post.L && L2 <= BN, "MODEL: result fits the modelled buffer");
    /* ---- split the input like the Standard's state machine does for this class */
    uint32_t he = NIN;
    for (unsigned i = NIN; i-- > PFX;) if (full[i] == '/' || full[i] == '?' || full[i] == '#') he = i;
    uint32_t hl = he - PFX;
    CHECK(hl > 0, "accepted input has a non-empty host");
    uint8_t h[TT + 1];
    for (unsigned i = 0; i < TT; i++) { uint8_t c = (i < hl) ? full[PFX + i] : 0; h[i] = (c >= 'A' && c <= 'Z') ? (c | 0x20) : c; }
    for (unsigned i = 0; i < T; i++) if (i < hl) CHECK(h[i] < 0x80 && !ref_forbidden_domain(h[i]), "host byte is an ASCII non-forbidden domain code point");
    CHECK(!ref_ends_in_number(h, hl), "host does not end in a number (IPv4 needs the full parser)");
    for (unsigned i = 0; i + 2 < T; i++) if (i + 2 < hl) CHECK(!(h[i] == 'x' && h[i + 1] == 'n' && h[i + 2] == '-'), "no xn- (IDNA needs the full parser)");
    uint32_t qs = NIN, fs = NIN;
    for (unsigned i = NIN; i-- > PFX;) if (i >= he && full[i] == '#') fs = i;
    for (unsigned i = NIN; i-- > PFX;) if (i >= he && i < fs && full[i] == '?') qs = i;
    uint32_t pe = qs < fs ? qs : fs;            /* path is [he, pe) */
    uint32_t seg = he + 1;
    for (unsigned i = PFX; i < NIN; i++) {
      if (i >= he && i < pe) {
        uint8_t c = full[i];
        CHECK(!ref_in_path(c) && c != '\\', "path byte needs no encoding and is not a backslash");
        if (c == '/' && i > he) { CHECK(!dotseg(full, seg, i), "no dot segment in the path"); seg = i + 1; }
      }
      if (i > qs && i < fs && qs < NIN) CHECK(!ref_in_special_query(full[i]), "query byte needs no encoding");
      if (i > fs && fs < NIN) CHECK(!ref_in_fragment(full[i]), "fragment byte needs no encoding");
    }
    if (pe > he) CHECK(!dotseg(full, seg, pe), "no trailing dot segment in the path");
    /* ---- expected object */
    const uint32_t ins = (pe == he) ? 1 : 0;     /* "/" inserted for an empty path */
    CHECK(post.L == NIN + ins, "href length = input length (+1 for the inserted slash)");
    int same = 1;
    for (unsigned i = 0; i < NIN; i++) {
      uint8_t c = full[i]; if (i >= PFX && i < he && c >= 'A' && c <= 'Z') c |= 0x20;
      uint32_t j = i < he ? i : i + ins;
      if (j < BN && post.buf[j] != c) same = 0;
    }
    if (ins && he < BN && post.buf[he] != '/') same = 0;
    CHECK(same, "href = input with lower-cased host (and the inserted slash)");
    CHECK(PE(&post) == PFX - 2 && UE(&post) == PFX && HS(&post) == PFX && HE(&post) == he && PORT(&post) == OMIT && PS(&post) == he, "scheme / authority offsets");
    CHECK(SS(&post) == (qs < NIN ? qs + ins : OMIT) && HH(&post) == (fs < NIN ? fs + ins : OMIT), "query / fragment offsets");
    CHECK(post.type == (PFX == 7 ? T_HTTP : T_HTTPS) && post.opaque == 0 && post.host_type == 0, "flags");
    CHECK(INV(&post), "the produced object satisfies the representation invariant");
    if (qs < NIN || fs < NIN) REACH("accepted with a query or fragment");
  }
}
