/* The seven percent-encode bitmaps and the hex[] table, for every byte value: bit_at(SET, c) <=> c is in the
 * Standard's set; hex[4c..4c+3) == '%' + two upper-case hex digits. */
#include "pct.h"
struct inputs { uint8_t c; uint8_t set; };
void harness(void) {
  INPUTS(I);
  VK_INIT_ALL();
  ASSUME(I.set < 7);
  uint64_t r = F_vk_bit_at(0, 0, 0, 0, I.set, I.c);
  CHECK((r != 0) == (ref_in_set(I.set, I.c) != 0), "bitmap membership equals the Standard's percent-encode set");
  uint8_t h[4] = {0};
  F_vk_hex_entry(0, 0, h, 4, I.c, 0);
  CHECK(h[0] == '%' && h[1] == ref_hex_upper(I.c >> 4) && h[2] == ref_hex_upper(I.c & 15), "hex table entry is %HH upper-case");
  if (r) REACH("member");
}
