/* Native setter sweep (NOT a solver result): every corpus URL x ten setters x a list of values (the new_value strings of
 * tests/wpt/setters_tests.json plus hand-picked ones).  After each call: url and url_aggregator agree on the return value,
 * href and getters; a failing setter left the URL unchanged; validate() holds; and the
 * aggregator's state satisfies INV (harness/inv.h, incl. record invariants and truthful host kind).  This is the only
 * coverage of set_host / set_hostname / set_href / ada::url setters, which the solver obligations cannot decide. */
#define BN 250
#include <stdio.h>
#include <stdlib.h>
#include <string.h>
#include <stdint.h>
#include "inv.h"
extern uint64_t vk_setter_sweep(uint8_t*, uint64_t, uint8_t*, uint64_t, uint64_t, uint64_t);
extern uint64_t vk_setter_limit(uint8_t*, uint64_t, uint8_t*, uint64_t, uint64_t, uint64_t);
static void unpack(struct st* s, const uint8_t* o) {
  for (unsigned i = 0; i < 8; i++) s->c[i] = (uint32_t)o[4 * i] | ((uint32_t)o[4 * i + 1] << 8) | ((uint32_t)o[4 * i + 2] << 16) | ((uint32_t)o[4 * i + 3] << 24);
  s->type = o[32]; s->opaque = o[33]; s->host_type = o[34]; s->L = o[35];
  memset(s->buf, 0, BN); memcpy(s->buf, o + 36, s->L);
}
int main(int argc, char** argv) {
  FILE* f = fopen(argv[1], "rb"); FILE* g = fopen(argv[2], "rb"); if (!f || !g) return 2;
  static uint8_t vals[4000][64]; static uint32_t vlen[4000]; unsigned nv = 0;
  for (;;) { uint32_t n; if (fread(&n, 4, 1, g) != 1) break; if (n > 60) { fseek(g, n, SEEK_CUR); continue; } if (n && fread(vals[nv], 1, n, g) != n) return 2; vlen[nv++] = n; if (nv >= 4000) break; }
  static uint8_t buf[600], in[900], out[36 + 300];
  unsigned long runs = 0, bad = 0, urls = 0;
  int limit_mode = argc > 3 && argv[3][0] == 'L';   /* C09 base case: the same sweep under limits around the sizes involved */
  for (;;) {
    uint32_t n; if (fread(&n, 4, 1, f) != 1) break;
    if (n > 500) return 2;
    if (n && fread(buf, 1, n, f) != n) return 2;
    if (n > 120) continue;
    urls++;
    if (urls % 3 != 0) continue;                    /* every third corpus string: keeps the run under a minute */
    for (unsigned s = 0; s < 10; s++) for (unsigned v = 0; v < nv; v++) {
      memcpy(in, buf, n); memcpy(in + n, vals[v], vlen[v]);
      if (limit_mode) {
        uint64_t r = vk_setter_limit(in, n + vlen[v], out, 36 + BN, n, s);
        if (!(r >> 63)) break;
        runs++;
        if (r & 0xff) { bad++; if (bad <= 10) printf("SETTER-FAIL limit bits=%llu setter=%u url=%.*s value=%.*s\n", (unsigned long long)(r & 0xff), s, (int)n, buf, (int)vlen[v], vals[v]); }
        continue;
      }
      uint64_t r = vk_setter_sweep(in, n + vlen[v], out, 36 + BN, n, s);
      if (!(r >> 63)) break;
      runs++;
      /* bit 32 (href re-parses to itself) is NOT required after a setter: the Standard itself is not a fixed point there
         (https://localhost/ with protocol := "file" serialises as file://localhost/, which parses to file:///) */
      uint64_t bits = r & 0xff & ~32ull; int inv_ok = 1;
      if (!((r >> 40) & 1)) { struct st st; unpack(&st, out); inv_ok = INV(&st); }
      if (bits || !inv_ok) { bad++; if (bad <= 10) printf("SETTER-FAIL bits=%llu inv=%d setter=%u url=%.*s value=%.*s\n", (unsigned long long)bits, inv_ok, s, (int)n, buf, (int)vlen[v], vals[v]); }
    }
  }
  printf("SETTERCORPUS runs=%lu bad=%lu\n", runs, bad);
  return bad ? 1 : 0;
}
