/* percent_encode overloads vs the Standard: for ALL byte strings of length N and each of the seven sets,
 * output == reference encoding.  VARIANT 0: percent_encode(sv,set) ; 1: percent_encode(sv,set,percent_encode_index) ;
 * 2: percent_encode<false>(sv,set,out) ; 3: percent_encode<true>(sv,set,out) appended to "ab". */
#include "pct.h"
struct inputs { uint8_t in[NN]; uint8_t set; };
#define CAP (3 * NN + 3)
void harness(void) {
  INPUTS(I);
  VK_INIT_ALL();
  ASSUME(I.set < 7);
#ifdef FIXSET
  ASSUME(I.set == FIXSET);
#endif
  uint8_t* in = h_exact(I.in, N);
  uint8_t out[CAP] = {0}, exp[CAP] = {0};
  uint64_t el = ref_percent_encode(in, N, I.set, exp);
#if VARIANT == 0
  uint64_t len = F_vk_percent_encode(in, N, out, CAP, I.set, 0);
  CHECK(len == el && h_eq(out, exp, el), "percent_encode(sv,set) equals the Standard's encoding");
#elif VARIANT == 1
  uint64_t r = F_vk_percent_encode_idx(in, N, out, CAP, I.set, 0);
  uint64_t len = r & 0xffffffff, idx = r >> 32;
  CHECK(idx <= N, "index within the input");
  for (unsigned i = 0; i < N; i++) { if (i < idx) CHECK(!ref_in_set(I.set, in[i]), "no byte before the index needs encoding"); }
  if (idx < N) CHECK(ref_in_set(I.set, in[idx < N ? idx : 0]), "the byte at the index needs encoding");
  CHECK(len == el && h_eq(out, exp, el), "percent_encode(sv,set,index) equals the Standard's encoding");
#elif VARIANT == 2
  uint64_t r = F_vk_percent_encode_out(in, N, out, CAP, I.set, 0);
  int changed = r & 1; uint64_t len = r >> 8;
  CHECK(changed == (el != N), "returns true exactly when something was encoded");
  if (changed) CHECK(len == el && h_eq(out, exp, el), "out equals the Standard's encoding");
#else
  uint64_t r = F_vk_percent_encode_out(in, N, out, CAP, I.set, 1);
  int changed = r & 1; uint64_t len = r >> 8;
  CHECK(changed == (el != N), "returns true exactly when something was encoded");
  if (changed) CHECK(len == el + 2 && out[0] == 'a' && out[1] == 'b' && h_eq(out + 2, exp, el), "appended text equals the Standard's encoding");
#endif
  if (el > N) REACH("something encoded");
}
