/* Native base case for C09 / C08 (NOT a solver result; the whole parser is outside the solver's reach): for every
 * corpus input (with and without bases) the real parser is run under limits around the sizes involved
 * (href size - 1, href size, input size, input size - 1, 3 * input size): a URL that is handed out never has an href
 * longer than the limit, both URL types agree on success, and can_parse answers what parse does. */
#include <stdio.h>
#include <stdlib.h>
#include <string.h>
#include <stdint.h>
extern uint64_t vk_parse_limited(uint8_t*, uint64_t, uint8_t*, uint64_t, uint64_t, uint64_t);
static const char* BASES[] = {"http://1.2.3.4/a/b?q#f", "file:///C:/d/", "sc://h/p", "sc:opaque path", "https://user:pw@example.com/", 0};
int main(int argc, char** argv) {
  FILE* f = fopen(argv[1], "rb"); if (!f) return 2;
  static uint8_t buf[600], in[900];
  unsigned long runs = 0, bad = 0;
  for (;;) {
    uint32_t n; if (fread(&n, 4, 1, f) != 1) break;
    if (n > 500) return 2;
    if (n && fread(buf, 1, n, f) != n) return 2;
    for (int b = -1; b < 0 || BASES[b]; b++) {
      uint64_t bl = b < 0 ? 0 : strlen(BASES[b]);
      if (bl) memcpy(in, BASES[b], bl);
      memcpy(in + bl, buf, n);
      uint64_t r0 = vk_parse_limited(in, bl + n, 0, 0, bl, 0xffffffffu);
      if (!(r0 & 1)) continue;
      uint64_t h = (r0 >> 16) & 0xffffff;
      uint64_t lims[6] = {h ? h - 1 : 0, h, n, n ? n - 1 : 0, 3 * (uint64_t)n, h + 1};
      for (int k = 0; k < 6; k++) {
        uint64_t L = lims[k];
        uint64_t r = vk_parse_limited(in, bl + n, 0, 0, bl, L);
        runs++;
        int ok = r & 1; uint64_t hl = (r >> 16) & 0xffffff;
        int fail = 0;
        if (ok && hl > L) fail = 1;                                   /* handed out an href longer than the limit */
        if (!bl && ((r >> 2) & 1) != ok) fail = 2;                    /* ada::url and url_aggregator disagree */
        if (((r >> 3) & 1) != ok) fail = 3;                           /* can_parse disagrees with parse */
        if (!ok && !((r >> 1) & 1) && h <= L && n <= L) fail = 4;     /* everything fits (base parsed) but parse failed */
        if (fail) { bad++; if (bad <= 8) printf("LIMIT-FAIL kind=%d limit=%llu base=%s input=%.*s href_len=%llu\n", fail, (unsigned long long)L, b < 0 ? "" : BASES[b], (int)n, buf, (unsigned long long)(ok ? hl : h)); }
      }
    }
  }
  printf("LIMITCORPUS runs=%lu bad=%lu\n", runs, bad);
  return bad ? 1 : 0;
}
