/* C API (C17): for an ARBITRARY valid url handle (state satisfying INV, length N) and for a handle holding a failed
 * parse, every getter / predicate wrapper of ada_c.cpp returns exactly what the C++ member returns on the same object
 * (same bytes: pointer identity into the object's buffer and equal length), and null / 0 / false on a failed handle. */
#include "inv.h"
struct inputs { struct st s; uint8_t which; uint8_t failed; };
static void st_pack(const struct st* s, uint8_t* o) {
  for (unsigned i = 0; i < 8; i++) { o[4 * i] = (uint8_t)s->c[i]; o[4 * i + 1] = (uint8_t)(s->c[i] >> 8); o[4 * i + 2] = (uint8_t)(s->c[i] >> 16); o[4 * i + 3] = (uint8_t)(s->c[i] >> 24); }
  o[32] = s->type; o[33] = s->opaque; o[34] = s->host_type; o[35] = s->L;
}
void harness(void) {
  INPUTS(I);
  VK_INIT_ALL();
  struct st pre = I.s;
  pre.L = N;
  ASSUME(INV(&pre));
  ASSUME(I.which <= 28 && !(I.which >= 10 && I.which < 16));
  ASSUME(I.failed <= 1);
#ifdef FIXWHICH
  ASSUME(I.which == FIXWHICH);
#endif
  uint8_t in[36 + NN];
  st_pack(&pre, in);
  for (unsigned i = 0; i < N; i++) in[36 + i] = pre.buf[i];
  uint64_t r = F_vk_capi_get(in, 36 + N, 0, 0, I.which, I.failed);
  if (I.which < 16) {
    uint64_t cl = r & 0xffff, pl = (r >> 16) & 0xffff; int same = (r >> 32) & 1, cnull = (r >> 33) & 1;
    if (I.failed) CHECK(cnull && cl == 0, "string getter on a failed handle returns {NULL, 0}");
    else { CHECK(cl == pl, "C getter returns the C++ getter's length"); CHECK(same, "C getter returns the C++ getter's bytes (same view)"); if (cl > 0) REACH("non-empty component"); }
  } else {
    uint64_t cv = r & 0xffff, pv = (r >> 16) & 0xffff;
    if (I.failed) { if (I.which == 28) CHECK(cv == 1, "ada_get_components on a failed handle returns NULL"); else CHECK(cv == 0, "predicate / scalar on a failed handle returns false / 0"); }
    else { CHECK(cv == pv, "C predicate / scalar equals the C++ member"); if (cv) REACH("true predicate"); }
  }
}
