/* URLPattern shortcut soundness (C15): for EVERY byte value, the "simple" character classes that let
 * canonicalize_hostname / canonicalize_pathname skip the URL parser only contain bytes the parser would copy unchanged:
 *   CHAR_SIMPLE_PATHNAME => path_signature == 0 (no percent-encoding needed, and not '.', '%', '\\' - nothing that can
 *                           form or hide a dot segment)
 *   CHAR_SIMPLE_HOSTNAME => not a forbidden domain code point, not upper case, not '%'
 *   CHAR_SCHEME <=> ALPHA / DIGIT / '+' / '-' / '.' ;  CHAR_UPPER <=> 'A'..'Z'. */
struct inputs { uint8_t c; };
void harness(void) {
  INPUTS(I);
  VK_INIT_ALL();
  uint64_t r = F_vk_char_class(0, 0, 0, 0, I.c, 0);
  unsigned cls = r & 0xff, sig = (r >> 8) & 0xff, dom = (r >> 16) & 0xff;
  uint8_t c = I.c;
  int alpha = ((c | 0x20) >= 'a' && (c | 0x20) <= 'z' && c < 0x80), digit = c >= '0' && c <= '9';
  CHECK(((cls & 1) != 0) == (alpha || digit || c == '+' || c == '-' || c == '.'), "CHAR_SCHEME is the scheme alphabet");
  CHECK(((cls & 2) != 0) == (c >= 'A' && c <= 'Z'), "CHAR_UPPER is A-Z");
  if (cls & 8) CHECK(sig == 0, "a simple-pathname byte needs no encoding and cannot take part in a dot segment");
  if (cls & 4) CHECK(dom == 0 && c != '%', "a simple-hostname byte is a lower-case non-forbidden domain byte");
  if (cls & 8) REACH("simple pathname byte");
}
