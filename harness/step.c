/* One inductive step of ada::url_aggregator: from an ARBITRARY state satisfying INV (buffer length N concrete,
 * all bytes and all eight offsets symbolic), one call of the real operation KERNEL with an arbitrary value of
 * length M, then: the library's own validate() accepts the object, INV holds again (hence the offsets partition
 * the href, and the record invariants of C19 hold), and the operation-specific frame / slot / atomicity
 * conditions (OP_*) hold.   BN = capacity of the modelled buffer (post-state must fit; larger => undecided). */
#include "inv.h"
#include "pct.h"
#ifndef M
#define M 0
#endif
#define MM ((M) > 0 ? (M) : 1)
struct inputs { struct st s; uint8_t val[MM]; uint32_t p0; uint32_t limit; };
#ifdef WITH_LIMIT
/* C09: the query's symbolic limit is installed with the REAL ada::set_max_input_length (wrapper vk_set_limit in the
 * same unit), so every read of the limit inside the operation - inlined or not - sees it. */
#endif

static void st_pack(const struct st* s, uint8_t* o) {
  for (unsigned i = 0; i < 8; i++) { o[4 * i] = (uint8_t)s->c[i]; o[4 * i + 1] = (uint8_t)(s->c[i] >> 8); o[4 * i + 2] = (uint8_t)(s->c[i] >> 16); o[4 * i + 3] = (uint8_t)(s->c[i] >> 24); }
  o[32] = s->type; o[33] = s->opaque; o[34] = s->host_type; o[35] = s->L;
}
static void st_unpack(struct st* s, const uint8_t* o) {
  for (unsigned i = 0; i < 8; i++) s->c[i] = (uint32_t)o[4 * i] | ((uint32_t)o[4 * i + 1] << 8) | ((uint32_t)o[4 * i + 2] << 16) | ((uint32_t)o[4 * i + 3] << 24);
  s->type = o[32]; s->opaque = o[33]; s->host_type = o[34]; s->L = o[35];
}

void harness(void) {
  INPUTS(I);
  VK_INIT_ALL();
  struct st pre = I.s;
#ifdef LAYOUT
  /* concrete layout (offsets, port, flags), symbolic bytes: one query per layout, all layouts enumerated */
  { static const uint32_t lay[8] = {LAYOUT}; for (unsigned i = 0; i < 8; i++) pre.c[i] = lay[i]; }
  pre.type = LTYPE; pre.opaque = LOPAQUE; pre.L = N;
#endif
  pre.L = N;   /* the length is CONCRETE per query (assigned, so that symex propagates the constant) */
  /* optional case split on the SHAPE of the state: the named quantity is ASSIGNED a constant (so that symex prunes the
     branches that depend on it) or constrained to the complementary case; the union of the cases of an obligation
     family is all states (each family lists its cases in obligations.py) */
#ifdef SH_HASH
  if (SH_HASH) ASSUME(pre.c[7] != OMIT); else pre.c[7] = OMIT;
#endif
#ifdef SH_SEARCH
  if (SH_SEARCH) ASSUME(pre.c[6] != OMIT); else pre.c[6] = OMIT;
#endif
#ifdef SH_PORT
  if (SH_PORT) ASSUME(pre.c[4] != OMIT); else pre.c[4] = OMIT;
#endif
#ifdef SH_TYPE
  pre.type = SH_TYPE;
#endif
#ifdef SH_OPAQUE
  pre.opaque = SH_OPAQUE;
#endif
  ASSUME(INV(&pre));
#ifdef OP_EDIT
#include "step_pre.h"
#endif
#ifdef PRE
  ASSUME(PRE);
#endif
#ifdef WITH_LIMIT
  const uint32_t LIMIT = I.limit;
  ASSUME(pre.L <= LIMIT);           /* the URL we start from was handed out under the same limit */
  F_vk_set_limit(0, 0, 0, 0, LIMIT, 0);
#endif
  uint8_t in[36 + NN + MM];
  st_pack(&pre, in);
  for (unsigned i = 0; i < N; i++) in[36 + i] = pre.buf[i];
  for (unsigned i = 0; i < M; i++) in[36 + N + i] = I.val[i];
  uint8_t out[36 + BN] = {0};
  uint64_t r = KERNEL(in, 36 + N + M, out, 36 + BN, I.p0, 0);
  struct st post;
  st_unpack(&post, out);
  for (unsigned i = 0; i < BN; i++) post.buf[i] = out[36 + i];
  int rv = r & 0xff; int valid = (r >> 8) & 1; uint64_t L2 = (r >> 16) & 0xffff;
  CHECK(L2 == post.L, "MODEL: post-state href fits the modelled buffer");
  if (L2 <= BN) {
    CHECK(valid, "the library's own validate() accepts the object after the operation");
#ifdef OP_CLEAR_PATHNAME
    inv_relax_path = 1;
#endif
    CHECK(INV(&post), "representation invariant (offset grammar, record invariants) holds after the operation");
#include "step_ops.h"
    REACH("the operation was executed from a state of this shape");
  }
}
