/* Scanner kernels: KERNEL(view, start) == index of the first byte at or after `start` that satisfies DELIM(c),
 * or view.size() if there is none.  All byte strings of length N, all start offsets <= N (WITH_P0). */
struct inputs { uint8_t in[NN]; uint64_t p0; };
void harness(void) {
  INPUTS(I);
  VK_INIT_ALL();
  uint8_t* in = h_exact(I.in, N);
  uint64_t p0 = 0;
#ifdef WITH_P0
  p0 = I.p0; ASSUME(p0 <= N);
#endif
  uint64_t r = KERNEL(in, N, 0, 0, p0, 0);
  uint64_t e = N;
  for (unsigned i = N; i-- > 0;) { uint8_t c = in[i]; if (i >= p0 && (DELIM(c))) e = i; }
  CHECK(r == e, "scanner returns the first delimiter position (or size)");
  if (e < N && e > 0) REACH("delimiter found");
}
