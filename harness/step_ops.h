/* operation-specific conditions for step.c (pre, post, rv, I.val[0..M), I.p0, LIMIT in scope).
 * FRAME(mask): every component NOT in mask is unchanged (compared through the getter model). */
#define F_USER 1
#define F_PASS 2
#define F_HOST 4
#define F_PORT 8
#define F_PATH 16
#define F_SEARCH 32
#define F_HASH 64
#define F_SCHEME 128
#define FRAME(mask) \
  ((((mask) & F_USER) || sl_equal(&pre, g_username(&pre), &post, g_username(&post))) && \
   (((mask) & F_PASS) || sl_equal(&pre, g_password(&pre), &post, g_password(&post))) && \
   (((mask) & F_HOST) || (sl_equal(&pre, g_hostname(&pre), &post, g_hostname(&post)) && inv_has_authority(&pre) == inv_has_authority(&post) && pre.host_type == post.host_type)) && \
   (((mask) & F_PORT) || PORT(&pre) == PORT(&post)) && \
   (((mask) & F_PATH) || (sl_equal(&pre, g_pathname(&pre), &post, g_pathname(&post)) && pre.opaque == post.opaque)) && \
   (((mask) & F_SEARCH) || (sl_equal(&pre, g_search(&pre), &post, g_search(&post)) && (SS(&pre) == OMIT) == (SS(&post) == OMIT))) && \
   (((mask) & F_HASH) || (sl_equal(&pre, g_hash(&pre), &post, g_hash(&post)) && (HH(&pre) == OMIT) == (HH(&post) == OMIT))) && \
   (((mask) & F_SCHEME) || (PE(&pre) == PE(&post) && pre.type == post.type && h_eq(pre.buf, post.buf, PE(&pre) < BN ? PE(&pre) : BN))))
#define ATOMIC() do { if (!rv) CHECK(st_equal(&pre, &post), "a setter that reports failure leaves the URL bit-identical"); } while (0)
/* C09: the configured limit */
#ifdef WITH_LIMIT
#define LIMITCHECK() do { \
    CHECK(post.L <= LIMIT, "no setter leaves an href longer than the configured maximum length"); \
    if (LIMIT < 15) REACH("a small limit is in force"); \
  } while (0)
#else
#define LIMITCHECK() do {} while (0)
#endif

#if defined(OP_CLEAR_PORT)
  CHECK(PORT(&post) == OMIT, "port cleared");
  if (PORT(&pre) == OMIT) CHECK(st_equal(&pre, &post), "no port: nothing changes");
  else CHECK(post.L + (PS(&pre) - HE(&pre)) == pre.L, "exactly the port slot was removed");
  CHECK(FRAME(F_PORT), "frame: every other component unchanged");
  if (PORT(&pre) != OMIT) REACH("a port was removed");
#elif defined(OP_CLEAR_PATHNAME)
  /* internal editor (first half of set_pathname): the path and a '/.' guard are removed, everything else stays */
  {
    struct slice pp = g_pathname(&pre);
    const uint32_t guard = (!inv_has_authority(&pre) && PS(&pre) == PE(&pre) + 2) ? 2 : 0;
    CHECK(g_pathname(&post).b == g_pathname(&post).e, "path is empty afterwards");
    CHECK(post.L + (pp.e - pp.b) + guard == pre.L, "exactly the path (and its '/.' guard) was removed");
    CHECK(FRAME(F_PATH), "frame: every other component unchanged");
    if (guard && (SS(&pre) != OMIT || HH(&pre) != OMIT)) REACH("a guarded path followed by a query or fragment was removed");
  }
#elif defined(OP_UPDATE_SEARCH_ENC)
  /* internal editor behind set_search: replace the query by '?' + percent-encoding of the (already stripped) value */
  {
    uint8_t enc[3 * MM + 1];
    uint64_t el = ref_percent_encode(I.val, M, inv_is_special(pre.type) ? SET_SPECIAL_QUERY : SET_QUERY, enc);
    uint32_t b = SS(&post), e = HH(&post) != OMIT ? HH(&post) : post.L;
    CHECK(b != OMIT && e - b == el + 1, "query slot = '?' + encoded value (length)");
    if (b != OMIT && e - b == el + 1 && e <= BN) CHECK(h_eq(post.buf + b + 1, enc, el), "query slot = '?' + encoded value (bytes)");
    CHECK(FRAME(F_SEARCH), "frame: every other component unchanged (in particular the fragment still starts at hash_start)");
    if (HH(&pre) != OMIT && el > M) REACH("encoded value inserted before a fragment");
  }
#elif defined(OP_CLEAR_SEARCH)
  CHECK(SS(&post) == OMIT, "query removed");
  CHECK(FRAME(F_SEARCH), "frame: every other component unchanged");
  if (SS(&pre) != OMIT) REACH("a query was removed");
#elif defined(OP_CLEAR_HASH)
  CHECK(HH(&post) == OMIT, "fragment removed");
  CHECK(FRAME(F_HASH), "frame: every other component unchanged");
  if (HH(&pre) != OMIT) REACH("a fragment was removed");
#elif defined(OP_SET_USERINFO)
  /* OP_SET_USERINFO = F_USER or F_PASS.  URL Standard, username / password setter: if the URL cannot have a
   * username/password/port return; otherwise set it to the UTF-8 percent-encoding of the value with the userinfo set */
  ATOMIC();
  LIMITCHECK();
  {
    const int cannot = pre.type == T_FILE || HS(&pre) == HE(&pre);
    if (cannot) CHECK(!rv && st_equal(&pre, &post), "host null/empty or file: credentials cannot be set");
    CHECK(FRAME(OP_SET_USERINFO), "frame: every other component unchanged");
#ifdef WITH_LIMIT
    if (!rv && !cannot) {
      /* the only other reason to fail is the limit: the result would not have fitted */
      uint8_t enc0[3 * MM + 1]; uint64_t el0 = ref_percent_encode(I.val, M, SET_USERINFO, enc0);
      struct slice g0 = (OP_SET_USERINFO == F_USER) ? g_username(&pre) : g_password(&pre);
      const int had_creds = UE(&pre) > PE(&pre) + 2 || HS(&pre) > UE(&pre);
      /* a conservative lower bound of the new length: old length - old slot + new slot */
      CHECK(pre.L - (g0.e - g0.b) + el0 + (had_creds || el0 == 0 ? 0 : 1) > LIMIT || pre.L - (g0.e - g0.b) + el0 + 2 > LIMIT, "a setter only fails when the result would exceed the limit");
    }
#else
    if (!cannot) CHECK(rv, "with no limit in force the credential setters succeed");
#endif
    if (rv) {
      uint8_t enc[3 * MM + 1]; uint64_t el = ref_percent_encode(I.val, M, SET_USERINFO, enc);
      struct slice g = (OP_SET_USERINFO == F_USER) ? g_username(&post) : g_password(&post);
      CHECK(g.e - g.b == el, "slot length equals the userinfo percent-encoding of the value");
      CHECK(g.e - g.b != el || g.e > BN || h_eq(post.buf + (g.b < BN ? g.b : 0), enc, el), "slot equals the userinfo percent-encoding of the value");
      REACH("credentials set");
    }
  }
#elif defined(OP_SET_PORT)
  /* URL Standard, port setter: cannot-have-port => return; "" => null; otherwise basic URL parse with port state
   * override: tab/newline removed, leading digits, > 65535 fails, default port => null, no digits => no change */
  ATOMIC();
  LIMITCHECK();
  CHECK(FRAME(F_PORT), "frame: every other component unchanged");
  {
    const int cannot = pre.type == T_FILE || HS(&pre) == HE(&pre);
    uint32_t num = 0; int nd = 0, started = 0, stop = 0, anychar = 0;
    for (unsigned i = 0; i < M; i++) {
      uint8_t ch = I.val[i];
      if (ch == 0x09 || ch == 0x0a || ch == 0x0d) continue;
      anychar = 1;
      if (!stop && ch >= '0' && ch <= '9') { num = num * 10 + (ch - '0'); if (num > 99999) num = 99999; nd++; } else stop = 1;
      (void)started;
    }
    if (cannot) CHECK(!rv && st_equal(&pre, &post), "host null/empty or file: a port cannot be set");
    else if (M == 0) CHECK(rv && PORT(&post) == OMIT, "empty value removes the port");
    else if (!anychar) CHECK(rv && st_equal(&pre, &post), "value of only tab/newline: no change");
    else if (nd == 0) CHECK(!rv && st_equal(&pre, &post), "value not starting with a digit: failure, no change");
    else if (num > 65535) CHECK(!rv && st_equal(&pre, &post), "port above 65535: failure, no change");
    else {
      const uint32_t want = (inv_default_port(pre.type) != 0 && num == inv_default_port(pre.type)) ? OMIT : num;
#ifdef WITH_LIMIT
      /* under a limit the setter must fail exactly when the resulting href would be longer than the limit */
      const uint32_t newlen = pre.L - (PS(&pre) - HE(&pre)) + (want == OMIT ? 0 : 1 + inv_ndigits(want));
      if (newlen > LIMIT) CHECK(!rv && st_equal(&pre, &post), "result would exceed the limit: failure, URL unchanged");
      else
#endif
      { CHECK(rv, "valid port accepted"); CHECK(PORT(&post) == want, "port equals the parsed number; the default port is stored as null"); }
    }
    if (rv && PORT(&post) != PORT(&pre)) REACH("port changed");
  }
#elif defined(OP_SET_QF)
  /* OP_SET_QF = F_SEARCH or F_HASH.  URL Standard, search / hash setter: "" => null (and strip trailing spaces of an
   * opaque path); otherwise remove ONE leading '?' / '#', then the parser removes tab/newline, then percent-encode
   * with the (special-)query / fragment set. */
  LIMITCHECK();
  {
    const int q = (OP_SET_QF == F_SEARCH);
    uint8_t v2[MM]; uint64_t m2 = 0;
    for (unsigned i = 0; i < M; i++) {
      uint8_t ch = I.val[i];
      if (i == 0 && ch == (q ? '?' : '#')) continue;
      if (ch == 0x09 || ch == 0x0a || ch == 0x0d) continue;
      v2[m2++] = ch;
    }
    uint8_t enc[3 * MM + 1];
    uint64_t el = ref_percent_encode(v2, m2, q ? (inv_is_special(pre.type) ? SET_SPECIAL_QUERY : SET_QUERY) : SET_FRAGMENT, enc);
    uint32_t b = q ? SS(&post) : HH(&post);
    uint32_t e = q ? (HH(&post) != OMIT ? HH(&post) : post.L) : post.L;
    int unchanged_by_limit = 0;
#ifdef WITH_LIMIT
    unchanged_by_limit = st_equal(&pre, &post) && 1;
#endif
    if (!unchanged_by_limit || M == 0) {
      if (M == 0) CHECK(b == OMIT, "empty value: component becomes null");
      else {
        CHECK(b != OMIT && e - b == el + 1, "slot length equals delimiter + percent-encoding of the stripped value");
        if (b != OMIT && e - b == el + 1 && e <= BN) CHECK(h_eq(post.buf + b + 1, enc, el), "slot equals the percent-encoding of the value (leading delimiter removed once, tab/newline removed)");
      }
    }
    if (M == 0 && pre.opaque) CHECK(FRAME(OP_SET_QF | F_PATH), "frame (opaque path may lose trailing spaces)");
    else CHECK(FRAME(OP_SET_QF), "frame: every other component unchanged");
    if (M > 0 && el > m2) REACH("value was encoded");
  }
#elif defined(OP_SET_PATHNAME)
  ATOMIC();
  LIMITCHECK();
  if (pre.opaque) CHECK(!rv && st_equal(&pre, &post), "opaque path: pathname setter does nothing");
  CHECK(FRAME(F_PATH), "frame: every other component unchanged");
  if (rv) REACH("path set");
#elif defined(OP_SET_PROTOCOL)
  ATOMIC();
  LIMITCHECK();
  CHECK(FRAME(F_SCHEME | F_PORT), "frame: only scheme (and a port equal to the new default) may change");
  CHECK(PORT(&post) == PORT(&pre) || PORT(&post) == OMIT, "a port is only ever removed by a scheme change");
  CHECK(inv_is_special(pre.type) == inv_is_special(post.type), "special-ness of the scheme never changes through the setter");
  if (rv && PE(&post) != PE(&pre)) REACH("scheme changed");
#elif defined(OP_SET_HOST)
  /* OP_SET_HOST: 1 = host setter (may change the port), 0 = hostname setter */
  ATOMIC();
  LIMITCHECK();
  if (pre.opaque) CHECK(!rv && st_equal(&pre, &post), "opaque path: host setters do nothing");
  CHECK(FRAME(F_HOST | (OP_SET_HOST ? F_PORT : 0)), "frame: every other component unchanged");
  if (rv && !sl_equal(&pre, g_hostname(&pre), &post, g_hostname(&post))) REACH("host changed");
#elif defined(OP_EDIT)
  /* internal editors: INV is preserved (checked above), the edited slot holds what the caller passed, every other
   * component is unchanged, and the length changes by exactly the slot difference */
#define SLOT_IS(g, ptr, len, msg) do { CHECK((g).e - (g).b == (len), msg " (length)"); \
    if ((g).e - (g).b == (len) && (g).e <= BN) CHECK(h_eq(post.buf + ((g).b < BN ? (g).b : 0), (ptr), (len)), msg " (bytes)"); } while (0)
#define SLOT_APPENDED(g0, g, msg) do { CHECK((g).e - (g).b == (g0).e - (g0).b + M, msg " (length)"); \
    if ((g).e - (g).b == (g0).e - (g0).b + M && (g).e <= BN) { \
      CHECK(h_eq(post.buf + ((g).b < BN ? (g).b : 0), pre.buf + ((g0).b < BN ? (g0).b : 0), (g0).e - (g0).b), msg " (old part)"); \
      CHECK(h_eq(post.buf + (((g).b + ((g0).e - (g0).b)) < BN ? ((g).b + ((g0).e - (g0).b)) : 0), I.val, M), msg " (appended part)"); } } while (0)
#if OP_EDIT == E_CLEAR_HOSTNAME
  { struct slice h = g_hostname(&post), h0 = g_hostname(&pre);
    CHECK(h.b == h.e, "host is empty afterwards");
    CHECK(post.L + (h0.e - h0.b) == pre.L, "exactly the host was removed");
    CHECK(post.host_type == 0, "an empty host is neither IPv4 nor IPv6");
    CHECK(FRAME(F_HOST), "frame: every other component unchanged");
    CHECK(inv_has_authority(&pre) == inv_has_authority(&post), "the authority marker stays");
    if (h0.e > h0.b && (SS(&pre) != OMIT || HH(&pre) != OMIT)) REACH("a host in front of a query or fragment was removed"); }
#elif OP_EDIT == E_CLEAR_PASSWORD
  { struct slice g = g_password(&post), g0 = g_password(&pre);
    CHECK(g.b == g.e, "password is empty afterwards");
    CHECK(post.L + (g0.e - g0.b) + (g0.e > g0.b ? 1 : 0) == pre.L, "exactly ':' + password was removed");
    CHECK(FRAME(F_PASS), "frame: every other component unchanged");
    if (g0.e > g0.b) REACH("a password was removed"); }
#elif OP_EDIT == E_UPDATE_USERNAME
  { struct slice g = g_username(&post); SLOT_IS(g, I.val, M, "username equals the value");
    CHECK(FRAME(F_USER), "frame: every other component unchanged");
    if (M > 0 && UE(&pre) == PE(&pre) + 2 && HS(&pre) == UE(&pre)) REACH("credentials introduced ('@' inserted)"); }
#elif OP_EDIT == E_UPDATE_PASSWORD
  { struct slice g = g_password(&post); SLOT_IS(g, I.val, M, "password equals the value");
    CHECK(FRAME(F_PASS), "frame: every other component unchanged");
    if (M == 0 && HS(&pre) > UE(&pre) && UE(&pre) == PE(&pre) + 2) REACH("last credential removed ('@' dropped)"); }
#elif OP_EDIT == E_APPEND_USERNAME
  { struct slice g = g_username(&post), g0 = g_username(&pre); SLOT_APPENDED(g0, g, "username equals old username + value");
    CHECK(FRAME(F_USER), "frame: every other component unchanged"); }
#elif OP_EDIT == E_APPEND_PASSWORD
  { struct slice g = g_password(&post), g0 = g_password(&pre); SLOT_APPENDED(g0, g, "password equals old password + value");
    CHECK(FRAME(F_PASS), "frame: every other component unchanged"); }
#elif OP_EDIT == E_UPDATE_HOSTNAME
  { struct slice g = g_hostname(&post); SLOT_IS(g, I.val, M, "host equals the value");
    CHECK(inv_has_authority(&post), "the URL has an authority afterwards");
    CHECK(FRAME(F_HOST), "frame: every other component unchanged (credentials keep their '@')");
    if (UE(&pre) > PE(&pre) + 2 || HS(&pre) > UE(&pre)) REACH("host replaced behind credentials"); }
#elif OP_EDIT == E_UPDATE_PORT
  CHECK(PORT(&post) == I.p0, "port equals the value");
  CHECK(FRAME(F_PORT), "frame: every other component unchanged");
  if (PORT(&pre) != OMIT && I.p0 != OMIT) REACH("a port replaced a port");
#elif OP_EDIT == E_AUTHORITY_NO_GUARD
  CHECK(inv_has_authority(&post), "the URL has an authority afterwards");
  CHECK(FRAME(F_HOST), "frame: every other component unchanged (the path keeps its bytes, the guard is gone)");
  if (inv_has_authority(&pre)) CHECK(st_equal(&pre, &post), "already has an authority: nothing changes");
  else { CHECK(g_hostname(&post).b == g_hostname(&post).e, "the new authority has an empty host");
         CHECK(post.L == pre.L + 2 - (PS(&pre) == PE(&pre) + 2 ? 2 : 0), "'//' inserted, '/.' guard removed"); }
  if (!inv_has_authority(&pre) && PS(&pre) == PE(&pre) + 2) REACH("a guarded path received an authority");
#elif OP_EDIT == E_UPDATE_PATHNAME
  { struct slice g = g_pathname(&post); SLOT_IS(g, I.val, M, "path equals the value");
    CHECK(FRAME(F_PATH), "frame: every other component unchanged");
    if (!inv_has_authority(&pre) && M >= 2 && I.val[1] == '/') REACH("a '//' path without authority was guarded"); }
#elif OP_EDIT == E_APPEND_PATHNAME
  { struct slice g = g_pathname(&post), g0 = g_pathname(&pre); SLOT_APPENDED(g0, g, "path equals old path + value");
    CHECK(FRAME(F_PATH), "frame: every other component unchanged"); }
#elif OP_EDIT == E_UPDATE_HASH
  { uint8_t enc[3 * MM + 1];
    uint64_t el = ref_percent_encode(I.val, M, SET_FRAGMENT, enc);
    CHECK(HH(&post) != OMIT && post.L - HH(&post) == el + 1, "fragment slot = '#' + encoded value (length)");
    if (HH(&post) != OMIT && post.L - HH(&post) == el + 1 && post.L <= BN) CHECK(h_eq(post.buf + HH(&post) + 1, enc, el), "fragment slot = '#' + encoded value (bytes)");
    CHECK(FRAME(F_HASH), "frame: every other component unchanged"); }
#elif OP_EDIT == E_SET_SCHEME
  CHECK(PE(&post) == M + 1, "scheme slot has the length of the value + ':'");
  if (PE(&post) == M + 1) CHECK(h_eq(post.buf, I.val, M), "scheme equals the value");
  CHECK(post.type == ref_scheme_type(I.val, M), "type names the new scheme");
  CHECK(FRAME(F_SCHEME), "frame: every other component unchanged");
  if (PE(&post) != PE(&pre)) REACH("scheme length changed");
#endif
#elif defined(OP_FRAME_ONLY)
  ATOMIC();
  if (rv) REACH("operation succeeded");
#else
  REACH("operation executed");
#endif
