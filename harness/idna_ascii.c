/* ASCII carve-out of domain-to-ASCII (C06) and its stability laws (C16), for ALL all-ASCII strings of length N:
 * to_ascii(x) succeeds and is exactly x lower-cased (URL Standard: an all-ASCII domain is simply lower-cased);
 * hence to_ascii is idempotent on its result and insensitive to ASCII case.  The non-ASCII pipeline (mapping tables,
 * NFC, Punycode) is cut by a stub of ada::idna::map that ends the path (outside this query). */
struct inputs { uint8_t in[NN]; };
/* stub of bool ada::idna::map(std::u32string_view, std::u32string&): the non-ASCII pipeline is outside this query */
uint8_t X__ZN3ada4idna3mapESt17basic_string_viewIDiSt11char_traitsIDiEERNSt7__cxx1112basic_stringIDiS3_SaIDiEEE(uint64_t a0, uint8_t* a1, uint8_t* a2) {
  (void)a0; (void)a1; (void)a2;
  __CPROVER_assert(0, "MODEL: non-ASCII IDNA pipeline reached (outside this query)");
  __CPROVER_assume(0);
  return 0;
}
void harness(void) {
  INPUTS(I);
  VK_INIT_ALL();
  uint8_t* in = h_exact(I.in, N);
  for (unsigned i = 0; i < N; i++) ASSUME(in[i] < 0x80);
  uint8_t out[NN + 1] = {0}, out2[NN + 1] = {0}, low[NN + 1] = {0};
  uint64_t r = F_vk_idna_to_ascii(in, N, out, NN, 0, 0);
  CHECK(r & 1, "an all-ASCII domain always converts");
  CHECK((r >> 8) == N, "same length");
  int anyupper = 0;
  for (unsigned i = 0; i < N; i++) { uint8_t c = in[i]; if (c >= 'A' && c <= 'Z') { c |= 0x20; anyupper = 1; } low[i] = c; }
  CHECK(h_eq(out, low, N), "result is the input lower-cased");
  /* idempotence and case-insensitivity: converting the result again returns it unchanged */
  uint8_t* in2 = h_exact(out, N);
  uint64_t r2 = F_vk_idna_to_ascii(in2, N, out2, NN, 0, 0);
  CHECK((r2 & 1) && (r2 >> 8) == N && h_eq(out2, out, N), "to_ascii(to_ascii(x)) == to_ascii(x)");
  if (anyupper) REACH("upper-case letters folded");
}
