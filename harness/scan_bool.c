/* Boolean scanners: KERNEL(view) != 0  <=>  some byte satisfies DELIM(c).  All byte strings of length N. */
struct inputs { uint8_t in[NN]; };
void harness(void) {
  INPUTS(I);
  VK_INIT_ALL();
  uint8_t* in = h_exact(I.in, N);
  uint64_t r = KERNEL(in, N, 0, 0, 0, 0);
  int e = 0;
  for (unsigned i = 0; i < N; i++) { uint8_t c = in[i]; if (DELIM(c)) e = 1; }
  CHECK((r != 0) == e, "scanner answers whether a matching byte exists");
  if (e) REACH("found");
}
