/* {url,url_aggregator}::parse_ipv4 == WHATWG IPv4 parser + serializer, for ALL byte strings of length N that
 * satisfy the caller's documented precondition (parse_host only calls parse_ipv4 on a lower-cased ASCII host
 * without forbidden domain code points for which checkers::is_ipv4 — the "ends in a number" checker — is true).
 * KERNEL = F_vk_url_parse_ipv4 | F_vk_agg_parse_ipv4 */
#include "ipv4.h"
#include "hostclass.h"
struct inputs { uint8_t in[NN]; };
void harness(void) {
  INPUTS(I);
  VK_INIT_ALL();
  uint8_t* in = h_exact(I.in, N);
  for (unsigned i = 0; i < N; i++) ASSUME(ref_domain_byte_ok(in[i]));
  ASSUME(ref_ends_in_number(in, N));
  uint8_t out[16] = {0};
  uint64_t r = KERNEL(in, N, out, 16, 0, 0);
  int ok = r & 1; unsigned host_type = (r >> 8) & 255; int is_valid = (r >> 16) & 1; uint64_t len = r >> 32;
  uint64_t e = ref_ipv4_parse(in, N);
  CHECK(ok == (e != REF_IPV4_FAIL), "parse_ipv4 succeeds exactly when the Standard's IPv4 parser does");
  if (ok) {
    uint8_t exp[16]; uint64_t el = ref_ipv4_serialize(e, exp);
    CHECK(host_type == 1, "host kind is IPV4 after a successful IPv4 parse");
    CHECK(len == el, "serialised length equals the Standard's serialiser");
    CHECK(el <= 15 && h_eq(out, exp, el), "serialised IPv4 host equals dotted decimal of the parsed address");
    REACH("ipv4 accepted");
  } else {
    CHECK(is_valid == 0, "failed IPv4 parse marks the URL invalid");
  }
}
