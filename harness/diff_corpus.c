/* Native base cases over the repository corpora for whole-parse statements that the solver cannot reach (NOT solver
 * results; reported separately in the evidence): url vs url_aggregator (C04), C API vs C++ (C17), href is a parse fixed
 * point and printable ASCII (C05).  MASK selects which disagreement bits of vk_diff_parse count for this property. */
#include <stdio.h>
#include <stdlib.h>
#include <string.h>
#include <stdint.h>
extern uint64_t vk_diff_parse(uint8_t*, uint64_t, uint8_t*, uint64_t, uint64_t, uint64_t);
static const char* BASES[] = {"http://1.2.3.4/a/b?q#f", "http://example.com/a/b", "https://example.com/", "file:///C:/d/", "file:///C:", "sc://h/p", "sc:opaque path", "https://user:pw@example.com/", "not a url", 0};
int main(int argc, char** argv) {
  FILE* f = fopen(argv[1], "rb"); if (!f) return 2;
  unsigned long mask = strtoul(argv[2], 0, 0);
  static uint8_t buf[600], in[900];
  unsigned long runs = 0, bad = 0;
  for (;;) {
    uint32_t n; if (fread(&n, 4, 1, f) != 1) break;
    if (n > 500) return 2;
    if (n && fread(buf, 1, n, f) != n) return 2;
    for (int b = -1; b < 0 || BASES[b]; b++) {
      uint64_t bl = b < 0 ? 0 : strlen(BASES[b]);
      if (bl) memcpy(in, BASES[b], bl);
      memcpy(in + bl, buf, n);
      uint64_t r = vk_diff_parse(in, bl + n, 0, 0, bl, 0);
      runs++;
      if ((r >> 63) && (r & mask)) { bad++; if (bad <= 8) printf("DIFF-FAIL bits=%llu base=%s input=%.*s\n", (unsigned long long)(r & 0xff), b < 0 ? "" : BASES[b], (int)n, buf); }
    }
  }
  printf("DIFFCORPUS runs=%lu bad=%lu\n", runs, bad);
  return bad ? 1 : 0;
}
