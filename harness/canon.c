/* URLPattern canonicalisers (C15) vs the URL Standard's state-override semantics, for ALL byte strings of length N.
 * WHICH: 0 protocol, 1 username, 2 password, 3 port, 4 search, 5 hash, 6 port given a protocol (PROTO), 7 IPv6 hostname */
#include "pct.h"
struct inputs { uint8_t in[NN]; };
#define CAP (3 * NN + 3)
static unsigned ref_default_port(unsigned proto) { return proto == 0 || proto == 2 ? 80 : (proto == 1 || proto == 5) ? 443 : proto == 3 ? 21 : 0; }
void harness(void) {
  INPUTS(I);
  VK_INIT_ALL();
  uint8_t* in = h_exact(I.in, N);
  uint8_t out[CAP] = {0}, exp[CAP] = {0};
#ifndef PROTO
#define PROTO 0
#endif
  uint64_t r = F_vk_canon(in, N, out, CAP, WHICH, PROTO);
  int ok = r & 1; uint64_t len = r >> 8;
  int eok = 1; uint64_t el = 0;
#if WHICH == 0
  /* canonicalize a protocol: "" -> ""; one trailing ':' removed; must be ALPHA *( ALPHA / DIGIT / + / - / . ); lower-cased */
  {
    uint64_t m = N;
    if (m > 0 && in[m - 1] == ':') m--;
    if (N == 0) { eok = 1; el = 0; }
    else {
      for (unsigned i = 0; i < N; i++) if (i < m) {
        uint8_t c = in[i]; int alpha = ((c | 0x20) >= 'a' && (c | 0x20) <= 'z');
        if (i == 0 ? !alpha : !(alpha || (c >= '0' && c <= '9') || c == '+' || c == '-' || c == '.')) eok = 0;
        exp[el++] = (c >= 'A' && c <= 'Z') ? (c | 0x20) : c;
      }
      if (m == 0) eok = 0;   /* ":" alone: empty scheme is not a scheme */
    }
  }
#elif WHICH == 1 || WHICH == 2
  el = ref_percent_encode(in, N, SET_USERINFO, exp);
#elif WHICH == 4 || WHICH == 5
  {
    uint8_t v2[NN]; uint64_t m2 = 0;
    for (unsigned i = 0; i < N; i++) { uint8_t c = in[i]; if (!(c == 0x09 || c == 0x0a || c == 0x0d)) v2[m2++] = c; }
    el = ref_percent_encode(v2, m2, WHICH == 4 ? SET_QUERY : SET_FRAGMENT, exp);
  }
#elif WHICH == 3 || WHICH == 6
  {
    /* port state with state override: tab/newline removed; leading digits; no digit first -> failure; > 65535 -> failure */
    uint32_t num = 0; int nd = 0, stop = 0, any = 0;
    for (unsigned i = 0; i < N; i++) {
      uint8_t c = in[i];
      if (c == 0x09 || c == 0x0a || c == 0x0d) continue;
      any = 1;
      if (!stop && c >= '0' && c <= '9') { num = num * 10 + (c - '0'); if (num > 99999) num = 99999; nd++; } else stop = 1;
    }
    if (!any) { eok = 1; el = 0; }
    else if (nd == 0 || num > 65535) eok = 0;
    else {
      if (WHICH == 6 && ref_default_port(PROTO) != 0 && num == ref_default_port(PROTO)) el = 0;
      else {
        uint8_t d[5]; unsigned k = 0; uint32_t t = num;
        do { d[k++] = (uint8_t)('0' + t % 10); t /= 10; } while (t && k < 5);
        for (unsigned i = 0; i < 5; i++) if (i < k) exp[el++] = d[k - 1 - i];
      }
    }
  }
#else
  for (unsigned i = 0; i < N; i++) { uint8_t c = in[i]; int hex = (c >= '0' && c <= '9') || ((c | 0x20) >= 'a' && (c | 0x20) <= 'f'); if (!(hex || c == '[' || c == ']' || c == ':')) eok = 0; exp[el++] = (c >= 'A' && c <= 'F') ? (c | 0x20) : c; }
#endif
  CHECK(ok == eok, "canonicalisation fails exactly when the Standard's does");
  if (ok && eok) {
    CHECK(len == el, "canonical length");
    CHECK(el < CAP && h_eq(out, exp, el), "canonical text equals the Standard's");
#if WHICH == 7 || WHICH == 0
    REACH("accepted");
#else
    if (el != N) REACH("canonical form differs from the input");
#endif
  }
}
