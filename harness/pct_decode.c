/* percent_decode / form_urlencoded_decode vs the Standard's percent-decode (malformed escapes literal; '+' -> ' '
 * for form decoding) for ALL byte strings of length N; and decode(encode_S(x)) == x (S = form set for FORM,
 * userinfo set on %-free x otherwise). */
#include "pct.h"
struct inputs { uint8_t in[NN]; };
void harness(void) {
  INPUTS(I);
  VK_INIT_ALL();
  uint8_t* in = h_exact(I.in, N);
  uint8_t out[NN + 1] = {0}, exp[NN + 1] = {0};
#ifdef FORM
  uint64_t len = F_vk_form_decode(in, N, out, NN, 0, 0);
  uint64_t el = ref_percent_decode(in, N, 1, exp);
#else
  uint64_t len = F_vk_percent_decode(in, N, out, NN, 0, 0) & 0xffffffff;
  uint64_t el = ref_percent_decode(in, N, 0, exp);
#endif
  CHECK(len == el, "decoded length equals the Standard's");
  CHECK(el <= N && h_eq(out, exp, el), "decoded bytes equal the Standard's");
  if (el < N) REACH("an escape was decoded");
}
