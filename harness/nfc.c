/* NFC kernels of ada::idna (src/ada_idna.cpp: sort_marks, would_compose, compose, is_already_nfc) for EVERY content of
 * the Unicode tables: the tables are symbolic arrays inside the input (layout in shim/vk.cpp, vk_nfc_install), scaled
 * to code points below 0xD800 with two table rows each and 12 entries of composition data, so the claims below do
 * not depend on the Unicode version or on the decoded blob.
 *  MODE 0  sort_marks(x) is the canonical ordering: starters stay, every maximal run of non-starters is sorted by
 *          combining class, STABLY (UAX #15 D108/D109) - for all x of N code points and all ccc tables;
 *  MODE 1  would_compose(x) <=> compose(x) changes x (the quick check never disagrees with the composition step),
 *          and compose never lengthens;  incl. Hangul L+V, LV+T arithmetic;
 *  MODE 3  (tables: concrete all-zero, only the code points symbolic) Hangul arithmetic of UAX #15 (3.12): x[0] a leading consonant or a precomposed syllable, x[1] a vowel or
 *          trailing consonant: L+V -> LV, LV+T -> LVT, everything else unchanged; would_compose agrees;
 *  MODE 2  is_already_nfc(x) <=> no singleton decomposition /\ sort_marks(x) == x /\ !would_compose(x). */
#include <string.h>
#ifndef N
#define N 3
#endif
#ifndef NIDX
#define NIDX 216   /* code points below NIDX * 256 */
#endif
struct inputs {
  uint32_t x[8];
  uint8_t ccc_index[NIDX]; uint8_t ccc_block[512];
  uint8_t comp_index[NIDX]; uint16_t comp_block[514]; uint32_t comp_data[12];
  uint8_t decomp_index[NIDX]; uint16_t decomp_block[514];
};
/* the tables the library's pointers are aimed at: separate objects, so that every access of the real code is an
   index into one typed array */
static uint32_t T_x[8];
static uint8_t T_ccc_index[NIDX], T_ccc_block[512], T_comp_index[NIDX], T_decomp_index[NIDX];
static uint16_t T_comp_block[514], T_decomp_block[514];
static uint32_t T_comp_data[12];
#define TABPTR(name) G__ZN3ada4idna##name##_t
static uint8_t ccc_of(uint32_t cp) { return T_ccc_block[(uint32_t)T_ccc_index[cp >> 8] * 256 + (cp & 255)]; }
void harness(void) {
  INPUTS(I);
  VK_INIT_ALL();
  for (unsigned i = 0; i < 8; i++) ASSUME(I.x[i] < NIDX * 256 && I.x[i] < 0xD800);
#if MODE == 3
  /* Hangul arithmetic does not consult the tables for the code points involved: all tables are concrete zeros (every
     code point a starter without compositions), only the code points are symbolic */
  for (unsigned i = 0; i < 8; i++) T_x[i] = I.x[i];
  TABPTR(9ccc_indexE) = T_ccc_index; TABPTR(14ccc_block_flatE) = T_ccc_block;
  TABPTR(17composition_indexE) = T_comp_index; TABPTR(22composition_block_flatE) = (uint8_t*)T_comp_block; TABPTR(16composition_dataE) = (uint8_t*)T_comp_data;
#else
  for (unsigned k = 0; k < NIDX; k++) { ASSUME(I.ccc_index[k] < 2); ASSUME(I.comp_index[k] < 2); ASSUME(I.decomp_index[k] < 2); }
#if MODE != 0
  for (unsigned k = 0; k < 514; k++) ASSUME(I.comp_block[k] <= 11);
  for (unsigned k = 0; k < 12; k++) ASSUME(I.comp_data[k] < 0xD800);
#endif
  /* whole-array copies (one step each: an element-wise loop would build a 512-deep chain of array updates) */
#ifdef __CPROVER
#define ACOPY(d, s) __CPROVER_array_copy((d), (s))
#else
#define ACOPY(d, s) memcpy((d), (s), sizeof(d))
#endif
  for (unsigned i = 0; i < 8; i++) T_x[i] = I.x[i];
  ACOPY(T_ccc_index, I.ccc_index); ACOPY(T_comp_index, I.comp_index); ACOPY(T_decomp_index, I.decomp_index);
  ACOPY(T_ccc_block, I.ccc_block); ACOPY(T_comp_block, I.comp_block); ACOPY(T_decomp_block, I.decomp_block); ACOPY(T_comp_data, I.comp_data);
  TABPTR(9ccc_indexE) = T_ccc_index; TABPTR(14ccc_block_flatE) = T_ccc_block;
#if MODE != 0
  TABPTR(17composition_indexE) = T_comp_index; TABPTR(22composition_block_flatE) = (uint8_t*)T_comp_block; TABPTR(16composition_dataE) = (uint8_t*)T_comp_data;
#endif
#if MODE == 2
  TABPTR(19decomposition_indexE) = T_decomp_index; TABPTR(24decomposition_block_flatE) = (uint8_t*)T_decomp_block;
  TABPTR(17tables_init_stateE) = 2;
#endif
#endif /* MODE != 3 */
  const uint32_t* x = I.x;               /* the original code points; the kernels work in place on T_x */
  uint8_t* in = (uint8_t*)T_x; uint8_t out[32] = {0};
#if MODE == 0
  uint64_t r = F_vk_nfc_kernel(in, 32, out, 32, N, 2);
  CHECK(r == N, "canonical reordering keeps the length");
  uint32_t ref[8] = {0};
  for (unsigned p = 0; p < N; p++) {
    const uint8_t c = ccc_of(x[p]);
    if (c == 0) { ref[p] = x[p]; continue; }
    /* run [a, b) of non-starters around p */
    unsigned a = p, stop = 0;
    for (unsigned k = 0; k < N; k++) if (!stop) { if (a > 0 && ccc_of(x[a - 1]) != 0) a--; else stop = 1; }
    unsigned rank = 0, in_run = 1;
    for (unsigned q = 0; q < N; q++) if (q >= a && in_run) {   /* constant trip count */
      const uint8_t cq = ccc_of(x[q]);
      if (cq == 0) in_run = 0;
      else if (cq < c || (cq == c && q < p)) rank++;
    }
    ref[(a + rank) % 8] = x[p];
  }
  for (unsigned p = 0; p < N; p++) CHECK(T_x[p] == ref[p], "sort_marks = stable sort of every run of non-starters by combining class (canonical ordering)");
  if (N >= 2 && ccc_of(x[0]) != 0 && ccc_of(x[0]) == ccc_of(x[1]) && x[0] != x[1]) REACH("two different marks of the same class");
#elif MODE == 3
  {
    const uint32_t a0 = x[0], a1 = x[1];
    ASSUME((a0 >= 0x1100 && a0 < 0x1113) || (a0 >= 0xAC00 && a0 < 0xAC00 + 11172));
    ASSUME(a1 >= 0x1161 && a1 < 0x11C3);
    for (unsigned p = 0; p < N; p++) ASSUME(ccc_of(x[p]) == 0);        /* Hangul jamo and syllables are starters */
#if N >= 3
    ASSUME(x[2] < 0x1100);
#endif
    uint32_t want0 = a0; int merged = 0;
    if (a0 < 0x1113 && a1 < 0x1176) { want0 = 0xAC00 + ((a0 - 0x1100) * 21 + (a1 - 0x1161)) * 28; merged = 1; }
    else if (a0 >= 0xAC00 && (a0 - 0xAC00) % 28 == 0 && a1 > 0x11A7) { want0 = a0 + (a1 - 0x11A7); merged = 1; }
    uint64_t r = F_vk_nfc_kernel(in, 32, out, 32, N, 3);
    const uint64_t len = r & 0xffffffffu; const int would = (int)(r >> 32);
#if N == 2
    CHECK(len == (merged ? 1u : 2u), "Hangul: L+V and LV+T compose, nothing else does (length)");
    CHECK(T_x[0] == want0, "Hangul: composed syllable per UAX #15 arithmetic");
    if (!merged) CHECK(T_x[1] == a1, "Hangul: second code point kept");
    CHECK(would == merged, "Hangul: would_compose agrees");
#else
    if (!merged) CHECK(T_x[0] == a0, "Hangul: first code point kept when nothing composes");
    else CHECK(would, "Hangul: would_compose sees the composition");
#endif
    if (merged && a0 >= 0xAC00) REACH("LV + T composes");
  }
#elif MODE == 1
  uint64_t r = F_vk_nfc_kernel(in, 32, out, 32, N, 3);
  const uint64_t len = r & 0xffffffffu; const int would = (int)(r >> 32);
  CHECK(len <= N, "composition never lengthens");
  int changed = len != N;
  for (unsigned p = 0; p < N; p++) if (p < len && T_x[p] != x[p]) changed = 1;
  CHECK(would == changed, "would_compose(x) holds exactly when compose(x) changes x");
  if (would && x[0] < 0x1100) REACH("a table-driven pair composes");
#if N >= 2
  if (would && x[0] >= 0x1100 && x[0] < 0x1113 && len == N - 1) REACH("Hangul L+V composes");
#endif
#else
  uint64_t r = F_vk_nfc_quick(in, 32, out, 32, N, 2);
  int unordered = 0;
  for (unsigned p = 0; p + 1 < N; p++) if (ccc_of(x[p + 1]) != 0 && ccc_of(x[p]) > ccc_of(x[p + 1])) unordered = 1;
  CHECK(((r & 1) != 0) == ((r & 10) == 0 && !unordered), "is_already_nfc <=> no singleton decomposition, marks in canonical order, nothing composes");
  if (r & 1) REACH("a string accepted by the shortcut");
#endif
}
