/* ada::url vs ada::url_aggregator twins (C04): the two separately written implementations of the same kernel return
 * the same success flag, host kind, validity and the same bytes for ALL inputs of length N (under PRECOND, the
 * callers' precondition, when given).  KERNEL_A = ada::url member, KERNEL_B = ada::url_aggregator member. */
#include "ipv4.h"
#include "hostclass.h"
struct inputs { uint8_t in[NN]; uint64_t p0; };
#ifndef OUTCAP
#define OUTCAP 16
#endif
void harness(void) {
  INPUTS(I);
  VK_INIT_ALL();
  uint8_t* a = h_exact(I.in, N);
  uint8_t* b = h_exact(I.in, N);
#ifdef PRECOND_IPV4
  for (unsigned i = 0; i < N; i++) ASSUME(ref_domain_byte_ok(a[i]));
  ASSUME(ref_ends_in_number(a, N));
#endif
  uint8_t oa[OUTCAP] = {0}, ob[OUTCAP] = {0};
  uint64_t ra = KERNEL_A(a, N, oa, OUTCAP, I.p0, 0);
  uint64_t rb = KERNEL_B(b, N, ob, OUTCAP, I.p0, 0);
  CHECK((ra & 1) == (rb & 1), "both URL types report the same success / failure");
  if (ra & 1) {
    CHECK(((ra >> 8) & 255) == ((rb >> 8) & 255), "both URL types report the same host kind");
    CHECK((ra >> 32) == (rb >> 32), "same length");
    CHECK(h_eq(oa, ob, OUTCAP), "same bytes");
    REACH("both succeed");
  } else {
    CHECK(((ra >> 16) & 1) == ((rb >> 16) & 1), "same validity flag after failure");
  }
}
