/* Punycode (RFC 3492) kernels of the IDNA implementation (C06 / C16), oracle-free laws on the REAL code:
 *  MODE 0: for ALL byte strings x of length N: verify_punycode(x) <=> punycode_to_utf32(x) succeeds
 *          (the validator used by the fast paths agrees with the decoder), and every decoded value is a code point
 *          <= 0x10FFFF;
 *  MODE 1: for ALL sequences u of K Unicode scalar values (at least one non-ASCII): utf32_to_punycode(u) succeeds,
 *          its output is ASCII, and punycode_to_utf32 of it returns u  (decode o encode = id).  */
#ifndef K
#define K 1
#endif
struct inputs { uint8_t in[NN]; uint32_t cp[K]; };
void harness(void) {
  INPUTS(I);
  VK_INIT_ALL();
#if MODE == 2
  uint8_t* in0 = h_exact(I.in, N);
  uint64_t v0 = F_vk_puny_verify(in0, N, 0, 0, 0, 0);
  CHECK(v0 <= 1, "boolean");
  if (v0) REACH("accepted");
#elif MODE == 0
  uint8_t* in = h_exact(I.in, N);
  uint8_t out[4 * (NN + 1)] = {0};
  uint64_t v = F_vk_puny_verify(in, N, 0, 0, 0, 0);
  uint8_t* in2 = h_exact(I.in, N);
  uint64_t d = F_vk_puny_decode(in2, N, out, 4 * (NN + 1), 0, 0);
  CHECK((v != 0) == ((d & 1) != 0), "verify_punycode accepts exactly what the decoder decodes");
  if (d & 1) {
    uint64_t cnt = d >> 8;
    CHECK(cnt <= N, "at most one code point per input character");
    for (unsigned i = 0; i < NN; i++) if (i < cnt) { uint32_t c = (uint32_t)out[4 * i] | ((uint32_t)out[4 * i + 1] << 8) | ((uint32_t)out[4 * i + 2] << 16) | ((uint32_t)out[4 * i + 3] << 24); CHECK(c <= 0x10FFFF, "decoded value is a code point"); }
    if (cnt > 0 && N > 1) REACH("decoded something");
  }
#else
  uint8_t cps[4 * K]; int nonascii = 0;
  for (unsigned i = 0; i < K; i++) {
    uint32_t c = I.cp[i];
    ASSUME(c <= 0x10FFFF && !(c >= 0xD800 && c <= 0xDFFF));
    if (c >= 0x80) nonascii = 1;
    cps[4 * i] = (uint8_t)c; cps[4 * i + 1] = (uint8_t)(c >> 8); cps[4 * i + 2] = (uint8_t)(c >> 16); cps[4 * i + 3] = (uint8_t)(c >> 24);
  }
  ASSUME(nonascii);
  uint8_t enc[16] = {0}, dec[4 * K + 4] = {0};
  uint64_t e = F_vk_puny_encode(cps, 4 * K, enc, 16, 0, 0);
  CHECK(e & 1, "encoding a scalar-value sequence succeeds");
  uint64_t el = e >> 8;
  CHECK(el <= 15, "MODEL: encoded label fits the modelled buffer");
  if ((e & 1) && el <= 15) {
    for (unsigned i = 0; i < 15; i++) if (i < el) CHECK(enc[i] < 0x80, "Punycode output is ASCII");
    uint64_t d = F_vk_puny_decode(enc, el, dec, 4 * K + 4, 0, 0);
    CHECK(d & 1, "the encoder's output decodes");
    CHECK((d >> 8) == K && h_eq(dec, cps, 4 * K), "decode(encode(u)) == u");
    REACH("round trip");
  }
#endif
}
