/* serializers::find_longest_sequence_of_ipv6_pieces and serializers::ipv6 for ALL 2^128 addresses (eight symbolic
 * 16-bit pieces) == the Standard's IPv6 serializer (first longest zero run of length > 1 compressed, lower-case hex
 * without leading zeros, brackets).  MODE 0: compress choice only;  MODE 1: the serialised text. */
#include "ipv6.h"
struct inputs { uint16_t a[8]; };
void harness(void) {
  INPUTS(I);
  VK_INIT_ALL();
  uint8_t in[16];
  for (unsigned i = 0; i < 8; i++) { in[2 * i] = (uint8_t)I.a[i]; in[2 * i + 1] = (uint8_t)(I.a[i] >> 8); }
#ifdef CLASS
  /* piece classes: every piece is 0 or non-zero chosen freely (all 2^128 values are still covered by MODE 0/1 without
     CLASS; this variant only narrows to one piece value per class to keep the text query small) */
  for (unsigned i = 0; i < 8; i++) ASSUME(I.a[i] == 0 || I.a[i] == 0x1 || I.a[i] == 0xabc || I.a[i] == 0x1234 || I.a[i] == 0x10);
#endif
  unsigned ec, el; ref_ipv6_compress(I.a, &ec, &el);
#if MODE == 0
  uint64_t r = F_vk_ipv6_longest(in, 16, 0, 0, 0, 0);
  unsigned c = (unsigned)(r & 0xffffffff), l = (unsigned)(r >> 32);
  /* the real helper reports runs of length 1 too (the caller ignores them): compare on what the caller uses */
  if (el >= 2) { CHECK(l == el && c == ec, "the FIRST longest run of zero pieces is chosen"); REACH("a run is compressed"); }
  else CHECK(l <= 1, "no run of two or more zero pieces");
#else
  uint8_t out[48] = {0}, exp[48] = {0};
  uint64_t len = F_vk_ser_ipv6(in, 16, out, 48, 0, 0);
  uint64_t xl = ref_ipv6_serialize(I.a, exp);
  CHECK(len == xl, "serialised length");
  CHECK(xl <= 41 && h_eq(out, exp, xl), "serialised IPv6 text equals the Standard's");
  if (el >= 2 && ec > 0) REACH("compressed in the middle");
#endif
}
