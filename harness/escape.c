/* URLPattern escapes (C14): escape_pattern_string / escape_regexp_string insert exactly one backslash before each
 * character of their documented set and copy everything else, so un-escaping (drop a backslash, keep the next byte)
 * returns the original text: the regular expression generated for a literal matches exactly that literal.
 * All ASCII strings of length N.  WHICH: 0 pattern, 1 regexp. */
struct inputs { uint8_t in[NN]; };
#define CAP (2 * NN + 1)
static int in_set(uint8_t c) {
#if WHICH == 0
  return c == '+' || c == '*' || c == '?' || c == ':' || c == '{' || c == '}' || c == '(' || c == ')' || c == '\\';
#else
  return c == '.' || c == '+' || c == '*' || c == '?' || c == '^' || c == '$' || c == '{' || c == '}' || c == '(' || c == ')' || c == '[' || c == ']' || c == '|' || c == '/' || c == '\\';
#endif
}
void harness(void) {
  INPUTS(I);
  VK_INIT_ALL();
  uint8_t* in = h_exact(I.in, N);
  for (unsigned i = 0; i < N; i++) ASSUME(in[i] < 0x80);   /* documented precondition: ASCII */
  uint8_t out[CAP] = {0};
  uint64_t len = F_vk_escape(in, N, out, CAP, WHICH, 0);
  uint64_t k = 0; int okk = 1;
  for (unsigned i = 0; i < N; i++) {
    if (in_set(in[i])) { if (!(k < CAP && out[k] == '\\')) okk = 0; k++; }
    if (!(k < CAP && out[k] == in[i])) okk = 0;
    k++;
  }
  CHECK(len == k, "one backslash per special character, nothing else added");
  CHECK(okk, "escaped text is the input with a backslash before each special character");
  if (k > N) REACH("something escaped");
}
