/* URLSearchParams::sort comparator (C12).  The comparator is a lambda that only exists inlined into libstdc++'s sort
 * instantiations; the instantiation std::__insertion_sort<vector<pair<string,string>>::iterator, ...sort()::lambda...>
 * is translated from the IR as it is and run on a two-element array: the second element moves in front of the first
 * exactly when comp(second, first) holds.  lt(x, y) below is therefore the REAL comparator.
 *  MODE 0: for ALL pairs of valid UTF-8 keys (each <= KL bytes): lt(x,y) <=> x precedes y in UTF-16 code-unit order;
 *  MODE 1: for ALL triples of ARBITRARY byte strings: irreflexive, asymmetric, transitive, and incomparability is
 *          transitive (strict weak order - std::stable_sort has undefined behaviour otherwise). */
#ifndef KL
#define KL 2
#endif
struct vkstr { uint8_t* p; uint64_t n; uint8_t b[16]; };
struct vkpair { struct vkstr k, v; };
struct key { uint8_t len; uint8_t b[KL]; };
struct inputs { struct key a, b, c; };
static void mk(struct vkpair* q, const struct key* k, uint8_t tag) {
  q->k.p = q->k.b; q->k.n = k->len; for (unsigned i = 0; i < 16; i++) q->k.b[i] = (i < k->len && i < KL) ? k->b[i] : 0;
  q->v.p = q->v.b; q->v.n = 1; for (unsigned i = 0; i < 16; i++) q->v.b[i] = 0; q->v.b[0] = tag;
}
static uint8_t comp_obj[8], proj_obj[8];
/* lt(x,y) = comp(x,y) of the real lambda */
static int lt(const struct key* x, const struct key* y) {
  struct vkpair arr[2];
  mk(&arr[0], y, 1); mk(&arr[1], x, 2);
  INSERTION_SORT((uint8_t*)&arr[0], (uint8_t*)&arr[2], comp_obj, proj_obj);
  return arr[0].v.b[0] == 2;
}
/* UTF-8 -> UTF-16 code units (valid input), at most 2*KL units */
static int utf8_valid(const struct key* k) {
  unsigned i = 0; int ok = 1;
  for (unsigned it = 0; it < KL; it++) if (i < k->len) {
    uint8_t c = k->b[i];
    if (c < 0x80) i += 1;
    else if (c >= 0xC2 && c <= 0xDF) { if (!(i + 1 < k->len && (k->b[(i + 1) % KL] & 0xC0) == 0x80)) ok = 0; i += 2; }
    else if (c >= 0xE0 && c <= 0xEF) {
      if (!(i + 2 < k->len && (k->b[(i + 1) % KL] & 0xC0) == 0x80 && (k->b[(i + 2) % KL] & 0xC0) == 0x80)) ok = 0;
      else { uint8_t c1 = k->b[(i + 1) % KL]; if ((c == 0xE0 && c1 < 0xA0) || (c == 0xED && c1 > 0x9F)) ok = 0; }
      i += 3;
    } else if (c >= 0xF0 && c <= 0xF4) {
      if (!(i + 3 < k->len && (k->b[(i + 1) % KL] & 0xC0) == 0x80 && (k->b[(i + 2) % KL] & 0xC0) == 0x80 && (k->b[(i + 3) % KL] & 0xC0) == 0x80)) ok = 0;
      else { uint8_t c1 = k->b[(i + 1) % KL]; if ((c == 0xF0 && c1 < 0x90) || (c == 0xF4 && c1 > 0x8F)) ok = 0; }
      i += 4;
    } else ok = 0;
  }
  return ok && i == k->len;
}
static unsigned utf16(const struct key* k, uint16_t* u) {
  unsigned i = 0, n = 0;
  for (unsigned it = 0; it < KL; it++) if (i < k->len) {
    uint8_t c = k->b[i]; uint32_t cp;
    if (c < 0x80) { cp = c; i += 1; }
    else if (c < 0xE0) { cp = ((c & 0x1F) << 6) | (k->b[(i + 1) % KL] & 0x3F); i += 2; }
    else if (c < 0xF0) { cp = ((c & 0x0F) << 12) | ((k->b[(i + 1) % KL] & 0x3F) << 6) | (k->b[(i + 2) % KL] & 0x3F); i += 3; }
    else { cp = ((c & 0x07) << 18) | ((k->b[(i + 1) % KL] & 0x3F) << 12) | ((k->b[(i + 2) % KL] & 0x3F) << 6) | (k->b[(i + 3) % KL] & 0x3F); i += 4; }
    if (cp >= 0x10000) { cp -= 0x10000; u[n++] = (uint16_t)(0xD800 + (cp >> 10)); u[n++] = (uint16_t)(0xDC00 + (cp & 0x3FF)); }
    else u[n++] = (uint16_t)cp;
  }
  return n;
}
void harness(void) {
  INPUTS(I);
  VK_INIT_ALL();
  ASSUME(I.a.len <= KL && I.b.len <= KL && I.c.len <= KL);
#if MODE == 0
  ASSUME(utf8_valid(&I.a) && utf8_valid(&I.b));
  uint16_t ua[2 * KL + 1] = {0}, ub[2 * KL + 1] = {0};
  unsigned na = utf16(&I.a, ua), nb = utf16(&I.b, ub);
  int e = 0, decided = 0;
  for (unsigned i = 0; i < 2 * KL; i++) if (!decided) {
    if (i >= na || i >= nb) { e = (i >= na && i < nb); decided = 1; }
    else if (ua[i] != ub[i]) { e = ua[i] < ub[i]; decided = 1; }
  }
  int r = lt(&I.a, &I.b);
  CHECK(r == e, "the sort comparator orders names by their UTF-16 code units");
  if (r && (KL < 2 || na > 1)) REACH("a key ordered first");
#else
#if MODE == 1
  int ab = lt(&I.a, &I.b), ba = lt(&I.b, &I.a), aa = lt(&I.a, &I.a);
  CHECK(!aa, "irreflexive");
  CHECK(!(ab && ba), "asymmetric");
  if (ab) REACH("a < b");
#elif MODE == 2
  int ab = lt(&I.a, &I.b), bc = lt(&I.b, &I.c), ac = lt(&I.a, &I.c);
  CHECK(!(ab && bc) || ac, "transitive");
  if (ab && bc) REACH("a < b < c");
#else
  int ab = lt(&I.a, &I.b), ba = lt(&I.b, &I.a), bc = lt(&I.b, &I.c), ac = lt(&I.a, &I.c), cb = lt(&I.c, &I.b), ca = lt(&I.c, &I.a);
  CHECK(!(!ab && !ba && !bc && !cb) || (!ac && !ca), "incomparability is transitive");
  if (!ab && !ba) REACH("a ~ b");
#endif
#endif
}
