// Native base case for C01 (NOT a solver result): the expectations of the repository's own WPT corpus
// tests/wpt/urltestdata.json (success/failure and href), which the pinned test suite does not run because the
// wpt_url_tests binary does not build in this image.  vec.h is generated from the JSON by lib/tv.py on every run.
#include "ada.h"
#include "vec.h"
#include <cstdio>
#include <string>
template<class T> int run(const char* nm){ int bad=0; for(auto&v:vecs){ std::string_view in(v.i,v.il), bs(v.b,v.bl); ada::result<T> base; if(v.hasb){ base=ada::parse<T>(bs); if(!base){ if(!v.fail){bad++; } continue; } }
 auto r= v.hasb? ada::parse<T>(in,&*base): ada::parse<T>(in); bool ok=r.has_value(); if(ok==(bool)v.fail){ bad++; if(bad<6) printf("%s MISMATCH success input=%.*s base=%.*s\n",nm,v.il,v.i,v.bl,v.b); continue;} if(ok){ std::string h(r->get_href()); if(h!=std::string(v.h,v.hl)){ bad++; if(bad<6) printf("%s HREF input=%.*s base=%.*s got=%s exp=%.*s\n",nm,v.il,v.i,v.bl,v.b,h.c_str(),v.hl,v.h);} } } printf("WPTVEC %s bad=%d of %zu\n",nm,bad,sizeof(vecs)/sizeof(vecs[0])); return bad; }
int main(){ return run<ada::url_aggregator>("agg")+run<ada::url>("url"); }
