/* serializers::ipv4 for ALL 2^32 addresses == the Standard's IPv4 serializer */
#include "ipv4.h"
struct inputs { uint32_t addr; };
void harness(void) {
  INPUTS(I);
  VK_INIT_ALL();
  uint8_t out[16] = {0};
  uint64_t len = KERNEL(0, 0, out, 16, I.addr, 0);
  uint8_t exp[16]; uint64_t el = ref_ipv4_serialize(I.addr, exp);
  CHECK(len == el, "length");
  CHECK(el <= 15 && h_eq(out, exp, el), "dotted decimal");
  if (I.addr == 0xC0A80001u) REACH("192.168.0.1");
}
