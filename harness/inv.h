/* inv.h — INV: the representation invariant of ada::url_aggregator (the grammar of a serialised URL record
 * over the eight offsets), written against the URL Standard's serializer and the layout documented in
 * include/ada/url_components.h.  It is PART OF THE CLAIM of every step obligation: the step harnesses show
 *   INV(pre) ==> INV(post) /\ validate() /\ partition /\ record invariants        (one call, arbitrary arguments)
 * and `./check`'s native corpus run shows that every URL the real parser produces from the repository's corpora
 * satisfies INV (otherwise INV would be wrong, not the library).
 *
 * A state: offsets c[0..8) = protocol_end, username_end, host_start, host_end, port, pathname_start, search_start,
 * hash_start; type; has_opaque_path; host_type; L = buffer length; buf.
 */
#ifndef VERIF_INV_H
#define VERIF_INV_H
#include <stdint.h>
#define OMIT 0xffffffffu
#ifndef BN
#define BN 16
#endif
struct st { uint32_t c[8]; uint8_t type, opaque, host_type, L; uint8_t buf[BN]; };
enum { T_HTTP = 0, T_NOT_SPECIAL = 1, T_HTTPS = 2, T_WS = 3, T_FTP = 4, T_WSS = 5, T_FILE = 6 };
#define PE(s) ((s)->c[0])
#define UE(s) ((s)->c[1])
#define HS(s) ((s)->c[2])
#define HE(s) ((s)->c[3])
#define PORT(s) ((s)->c[4])
#define PS(s) ((s)->c[5])
#define SS(s) ((s)->c[6])
#define HH(s) ((s)->c[7])

static int inv_scheme_is(const struct st* s, const char* name, unsigned len) {
  if (PE(s) != len + 1) return 0;
  for (unsigned i = 0; i < 6; i++) if (i < len && s->buf[i] != (uint8_t)name[i]) return 0;
  return 1;
}
static unsigned inv_default_port(unsigned type) {
  return type == T_HTTP || type == T_WS ? 80 : type == T_HTTPS || type == T_WSS ? 443 : type == T_FTP ? 21 : 0;
}
static int inv_is_special(unsigned type) { return type != T_NOT_SPECIAL; }
/* number of decimal digits of p (p <= 65535) */
static unsigned inv_ndigits(uint32_t p) { return p >= 10000 ? 5 : p >= 1000 ? 4 : p >= 100 ? 3 : p >= 10 ? 2 : 1; }

/* canonical dotted-decimal IPv4: four decimal parts 0..255 without leading zeros, single dots (the only form in
 * which the Standard's host serializer emits an IPv4 address) */
static int inv_is_canonical_ipv4(const uint8_t* h, uint32_t n) {
  unsigned parts = 0, digits = 0, val = 0; int ok = 1;
  for (unsigned i = 0; i < BN; i++) {
    if (i < n) {
      uint8_t ch = h[i];
      if (ch >= '0' && ch <= '9') {
        if (digits == 1 && val == 0) ok = 0;               /* leading zero */
        val = val * 10 + (ch - '0'); digits++;
        if (digits > 3 || val > 255) ok = 0;
      } else if (ch == '.') {
        if (digits == 0) ok = 0;
        parts++; digits = 0; val = 0;
      } else ok = 0;
    }
  }
  return ok && parts == 3 && digits > 0 && n > 0;
}
/* end of the path component */
static uint32_t inv_path_end(const struct st* s) { return SS(s) != OMIT ? SS(s) : HH(s) != OMIT ? HH(s) : s->L; }

/* inv_relax_path: set by the harness of internal editors that legitimately leave the path empty in between
 * (clear_pathname is always followed by parse_path); every other rule of INV still applies */
static int inv_relax_path = 0;
static int INV(const struct st* s) {
  const uint32_t L = s->L, P = PE(s);
  if (L > BN) return 0;
  /* --- scheme: ASCII alpha, then alnum/+/-/. , lower case, followed by ':' ; `type` names it */
  if (P < 2 || P > L) return 0;
  if (s->buf[P - 1] != ':') return 0;
  for (unsigned i = 0; i < BN; i++) {
    if (i + 1 < P) {
      uint8_t ch = s->buf[i];
      int alpha = ch >= 'a' && ch <= 'z';
      int rest = alpha || (ch >= '0' && ch <= '9') || ch == '+' || ch == '-' || ch == '.';
      if (i == 0 ? !alpha : !rest) return 0;
    }
  }
  {
    unsigned t = T_NOT_SPECIAL;
    if (inv_scheme_is(s, "http", 4)) t = T_HTTP; else if (inv_scheme_is(s, "https", 5)) t = T_HTTPS;
    else if (inv_scheme_is(s, "ws", 2)) t = T_WS; else if (inv_scheme_is(s, "wss", 3)) t = T_WSS;
    else if (inv_scheme_is(s, "ftp", 3)) t = T_FTP; else if (inv_scheme_is(s, "file", 4)) t = T_FILE;
    if (s->type != t) return 0;
  }
  if (s->type > T_FILE) return 0;
  if (s->opaque > 1) return 0;                     /* a bool */
  if (s->host_type > 2) return 0;
  /* --- ordering */
  if (UE(s) < P || HS(s) < UE(s) || HE(s) < HS(s) || PS(s) < HE(s) || PS(s) > L) return 0;
  const uint32_t pend = inv_path_end(s);
  if (pend < PS(s) || pend > L) return 0;
  if (SS(s) != OMIT) { if (SS(s) >= L || s->buf[SS(s)] != '?') return 0; if (HH(s) != OMIT && HH(s) <= SS(s)) return 0; }
  if (HH(s) != OMIT) { if (HH(s) >= L || s->buf[HH(s)] != '#') return 0; }
  /* no '#' before the fragment, no '?' before the query (both are percent-encoded everywhere else) */
  for (unsigned i = 0; i < BN; i++) {
    if (i < L) {
      uint8_t ch = s->buf[i];
      if (ch == '#' && (HH(s) == OMIT || i < HH(s))) return 0;
      if (ch == '?' && (SS(s) == OMIT ? (HH(s) == OMIT || i < HH(s)) : i < SS(s))) return 0;
      /* href is printable ASCII; a space can only occur inside an opaque path (not at its end) */
      if (ch < 0x20 || ch > 0x7e) return 0;
      if (ch == 0x20 && !(s->opaque && i >= PS(s) && i + 1 < pend)) return 0;
    }
  }
  /* --- authority */
  const int authority = HS(s) >= P + 2 && P + 2 <= L && s->buf[P] == '/' && s->buf[P + 1] == '/';
  if (authority) {
    if (UE(s) < P + 2) return 0;
    const int has_user = UE(s) > P + 2;
    const int has_pass = HS(s) > UE(s);
    if (has_pass) { if (HS(s) < UE(s) + 2) return 0; if (s->buf[UE(s)] != ':') return 0; }   /* ':' + non-empty password */
    uint32_t host_b = HS(s);
    if (has_user || has_pass) { if (HS(s) >= L || s->buf[HS(s)] != '@') return 0; host_b = HS(s) + 1; if (HE(s) < host_b) return 0; }
    const int host_empty = host_b == HE(s);
    /* empty host (or file scheme): no credentials, no port */
    if ((host_empty || s->type == T_FILE) && (has_user || has_pass || PORT(s) != OMIT)) return 0;
    if (inv_is_special(s->type) && s->type != T_FILE && host_empty) return 0;
    /* userinfo and host contain none of their delimiters */
    for (unsigned i = 0; i < BN; i++) {
      if (i >= P + 2 && i < HS(s) && i != UE(s)) { uint8_t ch = s->buf[i]; if (ch == '/' || ch == ':' || ch == '@' || ch == '\\' || ch == '[' || ch == ']') return 0; }
      if (i >= P + 2 && i < HS(s) && i == UE(s) && has_user && !has_pass) return 0; /* unreachable: UE==HS then */
      if (i >= host_b && i < HE(s)) { uint8_t ch = s->buf[i]; if (ch == '/' || ch == '@' || ch == '\\') return 0; if (ch == ':' && s->buf[host_b] != '[') return 0; }
    }
    /* --- port */
    if (PORT(s) != OMIT) {
      uint32_t p = PORT(s);
      if (p > 65535 || (inv_default_port(s->type) != 0 && p == inv_default_port(s->type))) return 0;
      unsigned nd = inv_ndigits(p);
      if (PS(s) != HE(s) + 1 + nd) return 0;
      if (HE(s) >= L || s->buf[HE(s)] != ':') return 0;
      uint32_t v = 0;
      for (unsigned k = 0; k < 5; k++) if (k < nd) { uint8_t ch = s->buf[HE(s) + 1 + k]; if (ch < '0' || ch > '9') return 0; v = v * 10 + (ch - '0'); }
      if (v != p) return 0;
    } else if (PS(s) != HE(s)) return 0;
    if (s->opaque) return 0;                       /* an opaque path has no host */
    /* --- host kind is truthful (C10): IPv6 <=> bracketed; IPv4 <=> special scheme and canonical dotted decimal */
#ifndef INV_NO_HOST_TYPE
    {
      const int v6 = !host_empty && s->buf[host_b] == '[';
      int v4 = 0;
      if (inv_is_special(s->type) && !host_empty && !v6) {
        uint8_t hb[BN]; uint32_t hl = HE(s) - host_b;
        for (unsigned i = 0; i < BN; i++) hb[i] = (i < hl) ? s->buf[(host_b + i) % BN] : 0;
        v4 = inv_is_canonical_ipv4(hb, hl);
      }
      if (s->host_type != (v6 ? 2 : v4 ? 1 : 0)) return 0;
    }
#endif
  } else {
    /* no authority: all authority offsets collapse onto protocol_end */
    if (UE(s) != P || HS(s) != P || HE(s) != P) return 0;
    if (PORT(s) != OMIT) return 0;
    if (inv_is_special(s->type)) return 0;         /* special URLs always have a host */
    if (PS(s) == P) {
      /* a path starting with "//" would read back as an authority: the serializer inserts "/." */
      if (!s->opaque && pend >= P + 2 && s->buf[P] == '/' && s->buf[P + 1] == '/') return 0;
    } else {
      if (PS(s) != P + 2 || s->opaque) return 0;
      if (s->buf[P] != '/' || s->buf[P + 1] != '.') return 0;
      if (pend < PS(s) + 2 || s->buf[PS(s)] != '/' || s->buf[PS(s) + 1] != '/') return 0;
    }
    if (s->host_type != 0) return 0;
  }
  /* --- path */
  if (s->opaque) {
    if (inv_is_special(s->type)) return 0;
    if (pend > PS(s) && s->buf[PS(s)] == '/') return 0;       /* an opaque path does not start with '/' */
  } else {
    if (pend > PS(s) && s->buf[PS(s)] != '/') return 0;
    if (inv_is_special(s->type) && pend == PS(s) && !inv_relax_path) return 0;   /* special: path is never empty */
  }
  return 1;
}

/* scheme type of a scheme name (the order of ada::scheme::type) */
static unsigned ref_scheme_type(const uint8_t* v, unsigned m) {
  static const char* const names[7] = {"http", "", "https", "ws", "ftp", "wss", "file"};
  static const unsigned lens[7] = {4, 0, 5, 2, 3, 3, 4};
  for (unsigned t = 0; t < 7; t++) {
    if (t == T_NOT_SPECIAL || lens[t] != m) continue;
    int eq = 1;
    for (unsigned i = 0; i < 5; i++) if (i < m && v[i] != (uint8_t)names[t][i]) eq = 0;
    if (eq) return t;
  }
  return T_NOT_SPECIAL;
}

/* --- observable model of the getters (what the URL API getters must return for a state) */
struct slice { uint32_t b, e; };   /* [b,e) of buf; b==e: empty */
static int inv_has_authority(const struct st* s) { return HS(s) >= PE(s) + 2 && PE(s) + 2 <= s->L && s->buf[PE(s)] == '/' && s->buf[PE(s) + 1] == '/'; }
static struct slice g_username(const struct st* s) { struct slice r = {0, 0}; if (inv_has_authority(s) && UE(s) > PE(s) + 2) { r.b = PE(s) + 2; r.e = UE(s); } return r; }
static struct slice g_password(const struct st* s) { struct slice r = {0, 0}; if (HS(s) > UE(s)) { r.b = UE(s) + 1; r.e = HS(s); } return r; }
static struct slice g_hostname(const struct st* s) { struct slice r; r.b = HS(s); if (HE(s) > HS(s) && s->buf[HS(s)] == '@') r.b++; r.e = HE(s); return r; }
static struct slice g_port(const struct st* s) { struct slice r = {0, 0}; if (PORT(s) != OMIT) { r.b = HE(s) + 1; r.e = PS(s); } return r; }
static struct slice g_pathname(const struct st* s) { struct slice r; r.b = PS(s); r.e = inv_path_end(s); return r; }
static struct slice g_search(const struct st* s) { struct slice r = {0, 0}; if (SS(s) != OMIT) { uint32_t e = HH(s) != OMIT ? HH(s) : s->L; if (e - SS(s) > 1) { r.b = SS(s); r.e = e; } } return r; }
static struct slice g_hash(const struct st* s) { struct slice r = {0, 0}; if (HH(s) != OMIT && s->L - HH(s) > 1) { r.b = HH(s); r.e = s->L; } return r; }

/* equality of two states */
static int st_equal(const struct st* a, const struct st* b) {
  for (unsigned i = 0; i < 8; i++) if (a->c[i] != b->c[i]) return 0;
  if (a->type != b->type || a->opaque != b->opaque || a->host_type != b->host_type || a->L != b->L) return 0;
  for (unsigned i = 0; i < BN; i++) if (i < a->L && a->buf[i] != b->buf[i]) return 0;
  return 1;
}
/* slices of two states have equal contents */
static int sl_equal(const struct st* a, struct slice x, const struct st* b, struct slice y) {
  if (x.e - x.b != y.e - y.b) return 0;
  for (unsigned i = 0; i < BN; i++) if (i < x.e - x.b && a->buf[x.b + i] != b->buf[y.b + i]) return 0;
  return 1;
}
#endif
