/* C13 — lazy Unicode-table initialisation, thread-modular (rely/guarantee) check of the REAL ada::idna::ensure_tables().
 *
 * One thread T runs the real code; every atomic access of T goes through the hooks below (ll2c --atomics-hook keeps
 * the memory orderings of the IR).  Before each of T's atomic accesses the ENVIRONMENT (= any number of other threads
 * running the same protocol) may take any sequence of protocol steps:
 *     UNINIT -> IN_PROGRESS (an env thread wins the CAS and becomes owner)
 *     IN_PROGRESS(owner=env) -> FAILED                      (allocation / inflate / CRC failure)
 *     IN_PROGRESS(owner=env) -> publish all pointers, then READY (release)
 * and nothing else (no transition out of READY/FAILED, no pointer write by a non-owner).
 * GUARANTEE (checked for T, which justifies assuming it for the environment): T itself only performs these steps:
 *   CAS only UNINIT->IN_PROGRESS; stores only while it is the owner; READY is stored with >= release ordering and
 *   only after all 19 pointers are non-null; T allocates only as owner (=> at most one allocation process-wide).
 * CONCLUSIONS (asserted): T returns true  => state is READY, all pointers published, and the load that told T so was
 *   an acquire load (or T is the publisher); T returns false => state is FAILED (init really failed), never
 *   "someone else is still working"; the spin loop is cut after SPIN_FAIR environment-less iterations (fair env).
 * inflate_raw / crc32_ieee / operator new(nothrow) are nondeterministic stubs (success or failure). */
struct inputs { uint8_t env[40]; uint8_t alloc_ok, inflate_ok; uint32_t crcval; };
static struct inputs* IP;
enum { UNINIT = 0, INPROG = 1, READY = 2, FAILED = 3 };
enum { OWNER_NONE = 0, OWNER_T = 1, OWNER_ENV = 2 };
static uint8_t g_state = UNINIT, g_owner = OWNER_NONE;
static unsigned g_envk = 0, g_allocs = 0, g_inprog_seen = 0;
static int g_last_ready_load_acquire = 0, g_t_published = 0;
static uint8_t vk_table_buf[64];
#ifndef SPIN_FAIR
#define SPIN_FAIR 2
#endif
/* LLVM AtomicOrdering: 0 not atomic, 1 unordered, 2 monotonic(relaxed), 4 acquire, 5 release, 6 acq_rel, 7 seq_cst */
static int is_acquire(int o) { return o == 4 || o == 6 || o == 7; }
static int is_release(int o) { return o == 5 || o == 6 || o == 7; }

static void env_publish(void);
static void env_step(void) {
  /* up to two environment actions per scheduling point, chosen by the symbolic schedule IP->env[] */
  for (unsigned r = 0; r < 2; r++) {
    uint8_t a = IP->env[g_envk % 40]; g_envk++;
    if (g_inprog_seen >= SPIN_FAIR && g_state == INPROG && g_owner == OWNER_ENV) a = (a & 1) ? 2 : 3;   /* fairness: the owner finishes */
    if (a == 1 && g_state == UNINIT) { g_state = INPROG; g_owner = OWNER_ENV; g_allocs++; }
    else if (a == 2 && g_state == INPROG && g_owner == OWNER_ENV) { g_state = FAILED; }
    else if (a == 3 && g_state == INPROG && g_owner == OWNER_ENV) { env_publish(); g_state = READY; }
  }
}
uint64_t vk_atomic_load(uint8_t* p, int order, int width) {
  (void)width;
  CHECK(p == G_STATE_ADDR(), "the only atomic of the protocol is tables_init_state");
  env_step();
  if (g_state == INPROG) g_inprog_seen++;
  if (g_state == READY) g_last_ready_load_acquire = is_acquire(order);
  return g_state;
}
int vk_atomic_cmpxchg(uint8_t* p, uint64_t expected, uint64_t desired, int so, int fo, int width, uint64_t* old) {
  (void)width; (void)fo;
  CHECK(p == G_STATE_ADDR(), "the only atomic of the protocol is tables_init_state");
  env_step();
  *old = g_state;
  if (g_state == expected) {
    CHECK(expected == UNINIT && desired == INPROG, "GUARANTEE: the only CAS is UNINIT -> IN_PROGRESS");
    CHECK(is_acquire(so), "the winning CAS is at least acquire");
    g_state = (uint8_t)desired; g_owner = OWNER_T;
    return 1;
  }
  if (g_state == READY) g_last_ready_load_acquire = is_acquire(fo);
  if (g_state == INPROG) g_inprog_seen++;
  return 0;
}
void vk_atomic_store(uint8_t* p, uint64_t v, int order, int width) {
  (void)width;
  CHECK(p == G_STATE_ADDR(), "the only atomic of the protocol is tables_init_state");
  env_step();
  CHECK(g_owner == OWNER_T && g_state == INPROG, "GUARANTEE: only the owner stores the state, and only while IN_PROGRESS");
  CHECK(v == READY || v == FAILED, "GUARANTEE: the owner ends in READY or FAILED");
  if (v == READY) {
    CHECK(is_release(order), "READY is published with (at least) release ordering");
    CHECK(F_vk_tables_published(0, 0, 0, 0, 0, 0) == 19, "all table pointers are published before READY");
    g_t_published = 1;
  }
  g_state = (uint8_t)v;
}
/* stubs of the heavy callees (nondeterministic outcome) */
uint8_t* X__ZnamRKSt9nothrow_t(uint64_t n, uint8_t* nt) { (void)n; (void)nt; CHECK(g_owner == OWNER_T, "GUARANTEE: only the owner allocates"); g_allocs++; if (!IP->alloc_ok) return (uint8_t*)0; uint8_t* b = malloc(64); __CPROVER_assume(b != 0); return b; }
void X__ZdaPv(uint8_t* p);
uint64_t INFLATE_STUB(uint8_t* src, uint64_t sn, uint8_t* dst, uint64_t dn) { (void)src; (void)sn; (void)dst; return IP->inflate_ok ? dn : 0; }
uint32_t CRC_STUB(uint8_t* d, uint64_t n) { (void)d; (void)n; return IP->crcval; }
static void env_publish(void) { F_vk_tables_env_publish(0, 0, vk_table_buf, 64, 0, 0); }

void harness(void) {
  INPUTS(I);
  IP = &I;
  VK_INIT_ALL();
  uint64_t r = F_vk_ensure_tables(0, 0, 0, 0, 0, 0);
  CHECK(g_allocs <= 1, "at most one thread ever allocates the tables");
  if (r) {
    CHECK(g_state == READY, "true is only returned once the tables are READY");
    CHECK(F_vk_tables_published(0, 0, 0, 0, 0, 0) == 19, "a thread that gets true sees every table pointer");
    CHECK(g_t_published || g_last_ready_load_acquire, "the load that observed READY has acquire ordering (pointer reads are ordered after it)");
    if (g_owner == OWNER_ENV) REACH("tables published by another thread");
  } else {
    CHECK(g_state == FAILED, "false is only returned when initialisation really failed (never because a peer is still working)");
  }
  /* sequential result: with no environment steps and successful stubs the call succeeds */
}
