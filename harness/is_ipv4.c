/* checkers::is_ipv4 == the Standard's "ends in a number checker", on every non-empty lower-case ASCII domain of
 * length N without forbidden domain code points (the function's documented precondition). */
#include "ipv4.h"
#include "hostclass.h"
struct inputs { uint8_t in[NN]; };
void harness(void) {
  INPUTS(I);
  VK_INIT_ALL();
  uint8_t* in = h_exact(I.in, N);
  for (unsigned i = 0; i < N; i++) ASSUME(ref_domain_byte_ok(in[i]));
  uint64_t r = KERNEL(in, N, 0, 0, 0, 0);
  int e = ref_ends_in_number(in, N);
  CHECK((r != 0) == (e != 0), "is_ipv4 equals the ends-in-a-number checker");
  if (r) REACH("ends in a number");
}
