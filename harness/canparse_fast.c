/* try_can_parse_absolute_fast: whenever the single-pass validator COMMITS to true/false for an input of length N,
 * the URL Standard's parser (reference model for this class of inputs) gives the same answer.  All byte strings. */
#define REF_CP_MAX (NN + 1)
#include "canparse.h"
struct inputs { uint8_t in[NN]; };
void harness(void) {
  INPUTS(I);
  VK_INIT_ALL();
  uint8_t* in = h_exact(I.in, N);
  uint64_t r = F_vk_can_parse_fast(in, N, 0, 0, 0, 0);
  CHECK(r <= 2, "tri-state");
  if (r != 2) {
    int e = ref_can_parse_special(I.in, N);
    CHECK(e != 2, "validator commits only inside the class of URLs the model covers");
    CHECK(e == 2 || (int)r == e, "validator's answer equals the Standard's parser");
    if (r == 1) REACH("validator says valid");
  }
}
