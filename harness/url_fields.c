/* ada::url (the field-based type): ONE set_protocol / set_port call from an ARBITRARY record satisfying the record
 * invariants (scheme / type consistent, no credentials or port with a null/empty host or file, stored port != the
 * scheme's default, special => non-empty host unless file, opaque => no host), with an ARBITRARY value of length M:
 * the record invariants hold again; a failing setter changes nothing; the special-ness of the scheme never changes;
 * a port is only ever removed by a scheme change, and never equals the new scheme's default port afterwards. */
#ifndef M
#define M 0
#endif
#define MM ((M) > 0 ? (M) : 1)
#define SL 5
struct inputs { uint8_t type, opaque, host_state, user, pass, has_port; uint16_t port; uint8_t schemelen; uint8_t scheme[SL]; uint8_t val[MM]; };
static unsigned dport(unsigned t) { return t == 0 || t == 3 ? 80 : t == 2 || t == 5 ? 443 : t == 4 ? 21 : 0; }
static unsigned type_of(const uint8_t* s, unsigned n) {
  if (n == 4 && s[0] == 'h' && s[1] == 't' && s[2] == 't' && s[3] == 'p') return 0;
  if (n == 5 && s[0] == 'h' && s[1] == 't' && s[2] == 't' && s[3] == 'p' && s[4] == 's') return 2;
  if (n == 2 && s[0] == 'w' && s[1] == 's') return 3;
  if (n == 3 && s[0] == 'w' && s[1] == 's' && s[2] == 's') return 5;
  if (n == 3 && s[0] == 'f' && s[1] == 't' && s[2] == 'p') return 4;
  if (n == 4 && s[0] == 'f' && s[1] == 'i' && s[2] == 'l' && s[3] == 'e') return 6;
  return 1;
}
static int rec_inv(unsigned type, int opaque, unsigned host_state, int creds, int has_port, unsigned port) {
  if (type > 6 || host_state > 2) return 0;
  if ((host_state != 2 || type == 6) && (creds || has_port)) return 0;       /* null/empty host or file: no credentials, no port */
  if (type != 1 && type != 6 && host_state != 2) return 0;                    /* special non-file: non-empty host */
  if (type == 6 && host_state == 0) return 0;                                 /* file: host present (may be empty) */
  if (opaque && (host_state != 0 || type != 1)) return 0;                     /* opaque path: no host, not special */
  if (has_port && dport(type) != 0 && port == dport(type)) return 0;          /* default port never stored */
  return 1;
}
void harness(void) {
  INPUTS(I);
  VK_INIT_ALL();
  ASSUME(I.opaque <= 1 && I.user <= 1 && I.pass <= 1 && I.has_port <= 1 && I.schemelen >= 1 && I.schemelen <= SL);
  /* scheme text: lower-case alpha then alnum/+/-/. ; `type` names it */
  for (unsigned i = 0; i < SL; i++) if (i < I.schemelen) { uint8_t c = I.scheme[i]; int a = c >= 'a' && c <= 'z'; ASSUME(i == 0 ? a : (a || (c >= '0' && c <= '9') || c == '+' || c == '-' || c == '.')); }
  ASSUME(I.type == type_of(I.scheme, I.schemelen));
  ASSUME(rec_inv(I.type, I.opaque, I.host_state, I.user || I.pass, I.has_port, I.port));
  uint8_t in[9 + SL + MM];
  in[0] = I.type; in[1] = I.opaque; in[2] = I.host_state; in[3] = I.user; in[4] = I.pass; in[5] = I.has_port; in[6] = (uint8_t)I.port; in[7] = (uint8_t)(I.port >> 8);
  in[8] = I.schemelen;
  unsigned k = 9;
  for (unsigned i = 0; i < SL; i++) if (i < I.schemelen) in[k++] = I.scheme[i];
  for (unsigned i = 0; i < M; i++) in[k++] = I.val[i];
  uint8_t out[8 + 16] = {0};
  uint64_t rv = F_vk_url_fields_step(in, k, out, 24, WHICH, 0);
  unsigned t2 = out[1]; int hp2 = out[2]; unsigned p2 = out[3] | (out[4] << 8); unsigned sl2 = out[5];
  CHECK(sl2 <= 15, "MODEL: scheme fits");
  CHECK(rec_inv(t2, I.opaque, I.host_state, I.user || I.pass, hp2, p2), "record invariants hold after the setter (in particular: the stored port is not the scheme's default)");
  CHECK(t2 == type_of(out + 8, sl2), "scheme type names the stored scheme");
  for (unsigned i = 0; i < 15; i++) if (i < sl2) CHECK(!(out[8 + i] >= 'A' && out[8 + i] <= 'Z'), "stored scheme is lower-case");
#if WHICH == 0
  CHECK((t2 != 1) == (I.type != 1), "the special-ness of the scheme never changes through the protocol setter");
  CHECK(!hp2 || (I.has_port && p2 == I.port), "a scheme change only ever removes a port");
  if (!rv) CHECK(t2 == I.type && hp2 == I.has_port && sl2 == I.schemelen && h_eq(out + 8, I.scheme, I.schemelen), "a failing protocol setter changes nothing");
  if (rv && t2 != I.type) REACH("scheme type changed");
#else
  CHECK(t2 == I.type && sl2 == I.schemelen, "port setter leaves the scheme alone");
  if (!rv) CHECK(hp2 == I.has_port && (!hp2 || p2 == I.port), "a failing port setter changes nothing");
  if (rv && hp2 && p2 != I.port) REACH("port changed");
#endif
}
