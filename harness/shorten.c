/* helpers::shorten_path, both overloads (std::string for ada::url, std::string_view for ada::url_aggregator), vs the URL
 * Standard's "shorten a path" on the serialised path ('/'-joined segments), for ALL paths of length N built from
 * bytes and ALL scheme types: if the scheme is file and the path is exactly one segment that is a normalized Windows
 * drive letter ("/C:"), nothing happens; otherwise the last segment (from the last '/') is removed. */
struct inputs { uint8_t in[NN]; uint8_t type; };
void harness(void) {
  INPUTS(I);
  VK_INIT_ALL();
  ASSUME(I.type <= 6);
  uint8_t* a = h_exact(I.in, N);
  uint8_t* b = h_exact(I.in, N);
  /* a serialised non-opaque path: empty or beginning with '/' */
  if (N > 0) ASSUME(a[0] == '/');
  uint8_t oa[NN + 1] = {0}, ob[NN + 1] = {0};
  uint64_t ra = F_vk_shorten_path(a, N, oa, NN, I.type, 0);
  uint64_t rb = F_vk_shorten_path(b, N, ob, NN, I.type, 1);
  /* reference */
  int last = -1;
  for (unsigned i = 0; i < N; i++) if (a[i] == '/') last = (int)i;
  int drive = (I.type == 6) && N == 3 && last == 0 && (((a[1] | 0x20) >= 'a') && ((a[1] | 0x20) <= 'z')) && a[2] == ':';
  int echanged = (!drive && last >= 0);
  uint64_t elen = echanged ? (uint64_t)last : N;
  CHECK((ra & 1) == (unsigned)echanged && (ra >> 8) == elen, "std::string overload shortens exactly as the Standard says");
  CHECK((rb & 1) == (unsigned)echanged && (rb >> 8) == elen, "std::string_view overload shortens exactly as the Standard says");
  CHECK(h_eq(oa, a, elen) && h_eq(ob, a, elen), "the remaining path is the prefix before the last '/'");
  if (drive) REACH("drive-letter exception");
}
