/* C13, second half: "while another thread changes the global length limit, each call behaves as under one of the
 * values that were set".  The setter KERNEL is translated with --atomics-hook, so every read of ada's atomic
 * max_input_length_ goes through vk_atomic_load.  The same call is executed three times from the same arbitrary INV
 * state with the same arbitrary value: (A) every read returns L1, (B) every read returns L2, (C) each read returns L1
 * or L2 as chosen by a symbolic schedule (= a concurrent set_max_input_length between any two reads).
 * Assertion: the outcome of (C) (return value and complete post-state) equals the outcome of (A) or of (B). */
#include "inv.h"
#ifndef M
#define M 1
#endif
#define MM ((M) > 0 ? (M) : 1)
struct inputs { struct st s; uint8_t val[MM]; uint32_t L1, L2; uint8_t sched[8]; };
static struct inputs* IP; static int g_mode; static unsigned g_reads;
uint64_t vk_atomic_load(uint8_t* p, int order, int width) {
  (void)p; (void)order; (void)width;
  uint32_t r = g_mode == 0 ? IP->L1 : g_mode == 1 ? IP->L2 : ((IP->sched[g_reads % 8] & 1) ? IP->L1 : IP->L2);
  g_reads++;
  return r;
}
void vk_atomic_store(uint8_t* p, uint64_t v, int order, int width) { (void)p; (void)v; (void)order; (void)width; }
int vk_atomic_cmpxchg(uint8_t* p, uint64_t e, uint64_t d, int so, int fo, int w, uint64_t* old) { (void)p; (void)e; (void)d; (void)so; (void)fo; (void)w; *old = 0; return 0; }
static void st_pack(const struct st* s, uint8_t* o) {
  for (unsigned i = 0; i < 8; i++) { o[4 * i] = (uint8_t)s->c[i]; o[4 * i + 1] = (uint8_t)(s->c[i] >> 8); o[4 * i + 2] = (uint8_t)(s->c[i] >> 16); o[4 * i + 3] = (uint8_t)(s->c[i] >> 24); }
  o[32] = s->type; o[33] = s->opaque; o[34] = s->host_type; o[35] = s->L;
}
void harness(void) {
  INPUTS(I);
  IP = &I;
  VK_INIT_ALL();
  struct st pre = I.s;
  pre.L = N;
  ASSUME(INV(&pre));
  ASSUME(pre.L <= I.L1 && pre.L <= I.L2);
  uint8_t in[36 + NN + MM];
  st_pack(&pre, in);
  for (unsigned i = 0; i < N; i++) in[36 + i] = pre.buf[i];
  for (unsigned i = 0; i < M; i++) in[36 + N + i] = I.val[i];
#ifndef FULL
  /* sufficient condition, one execution under the symbolic schedule: the call reads the limit AT MOST ONCE, hence it
     behaves exactly as under the single value it read (the three-execution comparison is the thorough variant) */
  {
    uint8_t o1[36 + BN] = {0};
    g_mode = 2; g_reads = 0;
    uint64_t r1 = KERNEL(in, 36 + N + M, o1, 36 + BN, 0, 0);
    CHECK(g_reads <= 1, "the global length limit is read at most once per call (so the call behaves as under that one value)");
    if (g_reads == 1 && (r1 & 1)) REACH("limit read once, setter succeeded");
    return;
  }
#endif
  uint8_t out[3][36 + BN]; uint64_t r[3];
  for (g_mode = 0; g_mode < 3; g_mode++) {
    for (unsigned i = 0; i < 36 + BN; i++) out[g_mode][i] = 0;
    g_reads = 0;
    r[g_mode] = KERNEL(in, 36 + N + M, out[g_mode], 36 + BN, 0, 0);
  }
  CHECK(((r[2] >> 16) & 0xffff) <= BN, "MODEL: post-state fits the modelled buffer");
  int eqA = r[2] == r[0] && h_eq(out[2], out[0], 36 + BN);
  int eqB = r[2] == r[1] && h_eq(out[2], out[1], 36 + BN);
  CHECK(eqA || eqB, "with the limit changing concurrently the call behaves as under one of the two limits");
  if (r[0] != r[1]) REACH("the two limits lead to different outcomes");
}
