/* Native base case for C12 (NOT a solver result): url_search_params::sort() on lists of 17..48 pairs - beyond the
 * 16-element insertion-sort bound that the solver obligation (sortcmp.c) covers - against a reference stable insertion
 * sort by UTF-16 code units.  Deterministic inputs (fixed LCG), keys from an alphabet that separates UTF-16 order from
 * byte order (U+FF61 vs U+10000) and has many duplicates, values = original positions (so stability is visible). */
#include <stdio.h>
#include <string.h>
#include <stdint.h>
extern uint64_t vk_sp_sort(uint8_t*, uint64_t, uint8_t*, uint64_t, uint64_t, uint64_t);
static const char* KEYS[] = {"a", "b", "aa", "\xEF\xBD\xA1", "\xF0\x90\x80\x80", "\xEE\x80\x80", "", "Z", "a\xF0\x90\x80\x80", "a\xEF\xBD\xA1"};
#define NK 10
static unsigned utf16(const char* s, uint16_t* o) {
  unsigned n = 0; const uint8_t* p = (const uint8_t*)s;
  while (*p) {
    uint32_t c;
    if (*p < 0x80) c = *p++; else if (*p < 0xE0) { c = ((p[0] & 0x1f) << 6) | (p[1] & 0x3f); p += 2; }
    else if (*p < 0xF0) { c = ((p[0] & 0x0f) << 12) | ((p[1] & 0x3f) << 6) | (p[2] & 0x3f); p += 3; }
    else { c = ((p[0] & 7) << 18) | ((p[1] & 0x3f) << 12) | ((p[2] & 0x3f) << 6) | (p[3] & 0x3f); p += 4; }
    if (c >= 0x10000) { c -= 0x10000; o[n++] = 0xD800 + (c >> 10); o[n++] = 0xDC00 + (c & 0x3ff); } else o[n++] = (uint16_t)c;
  }
  return n;
}
static int less16(const char* a, const char* b) {
  uint16_t x[16], y[16]; unsigned nx = utf16(a, x), ny = utf16(b, y);
  for (unsigned i = 0; i < nx && i < ny; i++) if (x[i] != y[i]) return x[i] < y[i];
  return nx < ny;
}
static unsigned enc(char* o, const char* k) {
  unsigned n = 0; static const char H[] = "0123456789ABCDEF";
  for (const uint8_t* p = (const uint8_t*)k; *p; p++) { if (*p < 0x80) o[n++] = (char)*p; else { o[n++] = '%'; o[n++] = H[*p >> 4]; o[n++] = H[*p & 15]; } }
  return n;
}
int main(void) {
  unsigned long runs = 0, bad = 0; uint32_t lcg = 12345;
  for (unsigned n = 2; n <= 48; n++) for (unsigned rep = 0; rep < 12; rep++) {
    unsigned key[48], ord[48];
    for (unsigned i = 0; i < n; i++) { lcg = lcg * 1664525u + 1013904223u; key[i] = (lcg >> 16) % (rep < 4 ? 3 : NK); ord[i] = i; }
    char in[2048]; unsigned l = 0;
    for (unsigned i = 0; i < n; i++) { if (i) in[l++] = '&'; l += enc(in + l, KEYS[key[i]]); l += (unsigned)sprintf(in + l, "=%u", i); }
    for (unsigned i = 1; i < n; i++) { unsigned v = ord[i], j = i; while (j > 0 && less16(KEYS[key[v]], KEYS[key[ord[j - 1]]])) { ord[j] = ord[j - 1]; j--; } ord[j] = v; }
    char want[2048]; unsigned w = 0;
    for (unsigned i = 0; i < n; i++) { if (i) want[w++] = '&'; w += enc(want + w, KEYS[key[ord[i]]]); w += (unsigned)sprintf(want + w, "=%u", ord[i]); }
    uint8_t out[2048];
    uint64_t r = vk_sp_sort((uint8_t*)in, l, out, sizeof out, 1, 0);
    runs++;
    if (r != w || memcmp(out, want, w)) { bad++; if (bad <= 5) printf("SORT-FAIL n=%u in=%.*s got=%.*s want=%.*s\n", n, (int)l, in, (int)(r < 2048 ? r : 0), out, (int)w, want); }
    r = vk_sp_sort((uint8_t*)in, l, out, sizeof out, 0, 0);   /* parse + serialise round trip without sorting */
    runs++;
    if (r != l || memcmp(out, in, l)) { bad++; if (bad <= 5) printf("SORT-FAIL roundtrip n=%u in=%.*s got=%.*s\n", n, (int)l, in, (int)(r < 2048 ? r : 0), out); }
  }
  printf("SORTCORPUS runs=%lu bad=%lu\n", runs, bad);
  return bad ? 1 : 0;
}
