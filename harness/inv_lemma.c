/* Pure implication queries over INV (no ada code): for an ARBITRARY state of buffer length N,
 *   INV(s)  ==>  the Standard's record invariants (C19), the offsets partition the href exactly (C07),
 *                and the href is printable ASCII with spaces only inside an opaque path (C05).
 * Together with the step obligations (INV is preserved by every operation) and the corpus run (parser results
 * satisfy INV) this carries the three properties to every reachable object. */
#include "inv.h"
struct inputs { struct st s; };
void harness(void) {
  INPUTS(I);
  struct st s = I.s;
  s.L = N;
  ASSUME(INV(&s));
  const uint32_t P = PE(&s);
  /* ---- C19 record invariants */
  for (unsigned i = 0; i < BN; i++) if (i + 1 < P) CHECK(!(s.buf[i] >= 'A' && s.buf[i] <= 'Z'), "scheme is lower-case ASCII");
  const int auth = inv_has_authority(&s);
  struct slice host = g_hostname(&s), path = g_pathname(&s), user = g_username(&s), pass = g_password(&s);
  const int host_null = !auth, host_empty = auth && host.b == host.e;
  if (inv_is_special(s.type)) {
    CHECK(auth, "a special-scheme URL has a host");
    CHECK(s.type == T_FILE || !host_empty, "a special non-file URL has a non-empty host");
    CHECK(path.e > path.b && s.buf[path.b] == '/', "a special-scheme URL's path begins with '/'");
  }
  if (host_null || host_empty || s.type == T_FILE) {
    CHECK(user.b == user.e && pass.b == pass.e, "no credentials without a non-empty host / with file");
    CHECK(PORT(&s) == OMIT, "no port without a non-empty host / with file");
  }
  if (PORT(&s) != OMIT) {
    CHECK(PORT(&s) <= 65535, "port at most 65535");
    CHECK(inv_default_port(s.type) == 0 || PORT(&s) != inv_default_port(s.type), "the scheme's default port is never stored");
    struct slice pt = g_port(&s);
    CHECK(pt.e > pt.b && (pt.e - pt.b == 1 || s.buf[pt.b] != '0'), "stored port has no leading zeros");
  }
  if (s.opaque) CHECK(host_null, "an opaque-path URL has no host");
  else CHECK(path.e == path.b || s.buf[path.b] == '/', "a non-opaque path is empty or begins with '/'");
  /* ---- C07 partition: scheme ':' ['//' [user [':' pass] '@'] host [':' port]] ['/.'] path ['?' query] ['#' fragment] */
  uint32_t k = P;
  if (auth) {
    k += 2;
    if (user.e > user.b || pass.e > pass.b) {
      CHECK(user.b == k || user.b == user.e, "username starts right after //"); k += user.e - user.b;
      if (pass.e > pass.b) { CHECK(s.buf[k] == ':' && pass.b == k + 1, "':' then password"); k = pass.e; }
      CHECK(s.buf[k] == '@', "'@' closes the credentials"); k++;
    }
    CHECK(host.b == k, "host follows"); k = host.e;
    if (PORT(&s) != OMIT) { CHECK(s.buf[k] == ':', "':' then port"); k = g_port(&s).e; }
  } else if (PS(&s) == P + 2) { CHECK(s.buf[k] == '/' && s.buf[k + 1] == '.', "'/.' guard"); k += 2; }
  CHECK(path.b == k, "path follows"); k = path.e;
  if (SS(&s) != OMIT) { CHECK(SS(&s) == k && s.buf[k] == '?', "'?' starts the query"); k = HH(&s) != OMIT ? HH(&s) : s.L; }
  if (HH(&s) != OMIT) { CHECK(HH(&s) == k && s.buf[k] == '#', "'#' starts the fragment"); k = s.L; }
  CHECK(k == s.L, "the components cover the href exactly");
  /* ---- C05 printable ASCII, space only strictly inside an opaque path */
  for (unsigned i = 0; i < BN; i++) if (i < s.L) {
    CHECK(s.buf[i] >= 0x20 && s.buf[i] <= 0x7e, "href byte is printable ASCII");
    if (s.buf[i] == 0x20) CHECK(s.opaque && i >= path.b && i + 1 < path.e, "a space only occurs strictly inside an opaque path");
  }
  if (auth && (N < 9 || PORT(&s) != OMIT)) REACH("a state with an authority (and a port when it fits)");
}
