/* decode(encode_S(x)) == x for ALL byte strings x of length N: S = application/x-www-form-urlencoded set with form
 * decoding (FORM), or any of the URL sets restricted to x without '%' (a set that does not escape '%' cannot be
 * inverted on "%41"; this reading of "decoding inverts encoding" is part of the claim). */
#include "pct.h"
struct inputs { uint8_t in[NN]; uint8_t set; };
#define CAP (3 * NN + 1)
void harness(void) {
  INPUTS(I);
  VK_INIT_ALL();
  uint8_t* in = h_exact(I.in, N);
  uint8_t enc[CAP] = {0}, dec[CAP] = {0};
#ifdef FORM
  uint64_t el = F_vk_percent_encode(in, N, enc, CAP, SET_FORM, 0);
  CHECK(el <= 3 * N, "encoding expands at most 3x");
  uint8_t* e2 = enc;
#ifdef PLUS
  /* url_search_params::to_string replaces every ' ' of the encoded text by '+' (the set leaves 0x20 unescaped) */
  for (unsigned i = 0; i < CAP; i++) if (i < el && enc[i] == ' ') enc[i] = '+';
#endif
  /* case split on the encoded length: each call of the decoder sees a CONCRETE length (a symbolic length makes the
     string code of the decoder explode: out of memory at N = 1) */
  uint64_t dl = ~0ull;
  for (unsigned k = N; k <= 3 * N; k++) if (el == k) dl = F_vk_form_decode(e2, k, dec, CAP, 0, 0);
#else
  ASSUME(I.set < 6);
  for (unsigned i = 0; i < N; i++) ASSUME(in[i] != '%');
  uint64_t el = F_vk_percent_encode(in, N, enc, CAP, I.set, 0);
  CHECK(el <= 3 * N, "encoding expands at most 3x");
  uint8_t* e2 = enc;
  uint64_t dl = F_vk_percent_decode(e2, el, dec, CAP, 0, 0) & 0xffffffff;
#endif
  CHECK(dl == N && h_eq(dec, in, N), "decoding inverts encoding");
  if (el > N) REACH("something was encoded");
}
