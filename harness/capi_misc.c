/* C API (C17): (a) every mutator called on a handle that holds a failed parse returns false and leaves it failed, origin
 * is {NULL,0}; (b) an owned string of ANY length (including 0) handed to ada_free_owned_string is released (CBMC
 * --memory-leak-check: no block is still allocated at exit). */
struct inputs { uint8_t in[NN]; uint8_t len; };
void harness(void) {
  INPUTS(I);
  VK_INIT_ALL();
#ifdef OWNED
  ASSUME(I.len <= 8);
  uint8_t* slot[1];
  F_vk_capi_owned(0, 0, (uint8_t*)slot, 8, I.len, 0);
  CHECK(vk_live_blocks == 0, "the owned string's block was released exactly once (no leak, no double free)");
  if (I.len == 0) REACH("zero-length owned string");
#else
  uint8_t* in = h_exact(I.in, N);
  uint64_t v = F_vk_capi_failed_mutators(in, N, 0, 0, 0, 0);
  CHECK(v == 0, "mutators on a failed handle return false, the handle stays failed, origin is {NULL,0}");
  CHECK(vk_live_blocks == 0, "nothing is left allocated by calls on a failed handle");
  free(in);
  REACH("executed");
#endif
}
