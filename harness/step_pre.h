/* Preconditions of the internal editors of url_aggregator (OP_EDIT = n), included by step.c after ASSUME(INV(&pre)).
 * Each editor is called by the setters / the parser only in the situations described here; the value is what the
 * callers pass: already percent-encoded text for the component in question.  (pre, I.val[0..M), I.p0 in scope.) */
#define E_CLEAR_HOSTNAME 1
#define E_CLEAR_PASSWORD 2
#define E_UPDATE_USERNAME 3
#define E_UPDATE_PASSWORD 4
#define E_APPEND_USERNAME 5
#define E_APPEND_PASSWORD 6
#define E_UPDATE_HOSTNAME 7
#define E_UPDATE_PORT 8
#define E_AUTHORITY_NO_GUARD 9
#define E_UPDATE_PATHNAME 10
#define E_APPEND_PATHNAME 11
#define E_UPDATE_HASH 12
#define E_SET_SCHEME 13
{
  int ok = 1;
  const int can_have_creds = inv_has_authority(&pre) && pre.type != T_FILE && g_hostname(&pre).e > g_hostname(&pre).b;
  const int has_creds = UE(&pre) > PE(&pre) + 2 || HS(&pre) > UE(&pre);
  const int guarded = !inv_has_authority(&pre) && PS(&pre) == PE(&pre) + 2;
  for (unsigned i = 0; i < M; i++) {
    const uint8_t ch = I.val[i];
    if (ch < 0x21 || ch > 0x7e || ch == '?' || ch == '#') ok = 0;            /* every caller passes encoded text */
#if OP_EDIT >= E_UPDATE_USERNAME && OP_EDIT <= E_APPEND_PASSWORD
    if (ch == '/' || ch == ':' || ch == '@' || ch == '\\' || ch == '[' || ch == ']') ok = 0;   /* userinfo set is encoded */
#elif OP_EDIT == E_UPDATE_HOSTNAME
    if (!((ch >= 'a' && ch <= 'z') || (ch >= '0' && ch <= '9') || ch == '-' || ch == '.')) ok = 0;   /* a parsed domain */
#elif OP_EDIT == E_UPDATE_PATHNAME || OP_EDIT == E_APPEND_PATHNAME
    if (i == 0 && ch != '/') ok = 0;                                         /* a list path is serialised with '/' first */
#elif OP_EDIT == E_SET_SCHEME
    if (!((ch >= 'a' && ch <= 'z') || (i > 0 && ((ch >= '0' && ch <= '9') || ch == '+' || ch == '-' || ch == '.')))) ok = 0;
#endif
  }
#if OP_EDIT == E_CLEAR_HOSTNAME
  /* callers: empty host for a non-special URL without credentials/port, and the file scheme */
  ok = ok && !has_creds && PORT(&pre) == OMIT && (pre.type == T_NOT_SPECIAL || pre.type == T_FILE);
#elif OP_EDIT == E_CLEAR_PASSWORD
  /* on its own only when a username remains (otherwise update_base_password goes on to drop the '@') */
  ok = ok && UE(&pre) > PE(&pre) + 2;
#elif OP_EDIT >= E_UPDATE_USERNAME && OP_EDIT <= E_APPEND_PASSWORD
  ok = ok && can_have_creds;
#elif OP_EDIT == E_UPDATE_HOSTNAME
  /* a non-empty host anywhere but on an opaque path / guarded path (callers drop the guard right after); an empty
     host only where the Standard allows one */
  ok = ok && !pre.opaque && !guarded && (M > 0 || (!has_creds && PORT(&pre) == OMIT && (pre.type == T_NOT_SPECIAL || pre.type == T_FILE)));
#elif OP_EDIT == E_UPDATE_PORT
  ok = ok && can_have_creds && (I.p0 == OMIT || (I.p0 <= 65535 && !(inv_default_port(pre.type) != 0 && I.p0 == inv_default_port(pre.type))));
#elif OP_EDIT == E_AUTHORITY_NO_GUARD
  ok = ok && !pre.opaque;
#elif OP_EDIT == E_UPDATE_PATHNAME
  ok = ok && !pre.opaque && (M > 0 || !inv_is_special(pre.type));
#elif OP_EDIT == E_APPEND_PATHNAME
  ok = ok && !pre.opaque && inv_has_authority(&pre);
#elif OP_EDIT == E_SET_SCHEME
  {
    /* callers keep the special-ness, never give a file URL credentials or a port, never keep the new default port */
    const unsigned t = ref_scheme_type(I.val, M);
    ok = ok && M > 0 && inv_is_special(t) == inv_is_special(pre.type) && (t != T_FILE || (!has_creds && PORT(&pre) == OMIT)) &&
         !(inv_default_port(t) != 0 && PORT(&pre) == inv_default_port(t)) && !(inv_is_special(t) && t != T_FILE && g_hostname(&pre).e == g_hostname(&pre).b);
  }
#endif
  ASSUME(ok);
}
