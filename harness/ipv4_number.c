/* detail::parse_ipv4_number on one dot-free part of length N == the Standard's IPv4 number parser */
#include "ipv4.h"
struct inputs { uint8_t in[NN]; };
void harness(void) {
  INPUTS(I);
  VK_INIT_ALL();
  uint8_t* in = h_exact(I.in, N);
  for (unsigned i = 0; i < N; i++) ASSUME(in[i] != '.');
#ifdef DIGCLASS
  /* class-restricted variant (still ALL strings of the class): 1 = decimal digits, 2 = "0x" + hex digits, 3 = '0' + octal digits.
     These are the overflow-boundary cases (10 decimal / 8 hex / 11 octal significant digits). */
  for (unsigned i = 0; i < N; i++) {
    uint8_t c = in[i];
    if (DIGCLASS == 1) ASSUME(c >= '0' && c <= '9');
    if (DIGCLASS == 2) ASSUME(i == 0 ? c == '0' : i == 1 ? (c == 'x' || c == 'X') : ((c >= '0' && c <= '9') || ((c | 0x20) >= 'a' && (c | 0x20) <= 'f')));
    if (DIGCLASS == 3) ASSUME(i == 0 ? c == '0' : (c >= '0' && c <= '7'));
  }
#endif
  uint8_t out[9] = {0};
  uint64_t r = KERNEL(in, N, out, 9, 0, 0);
  int ok = r & 1; uint64_t consumed = r >> 8;
  uint64_t v = 0; for (int i = 7; i >= 0; i--) v = (v << 8) | out[i];
  struct ref_part p; ref_part_reset(&p);
  for (unsigned i = 0; i < N; i++) ref_part_feed(&p, in[i]);
  uint64_t e = ref_part_value(&p);
  /* the real function additionally rejects values that do not fit 32 bits (the caller would reject them anyway) */
  int eok = e <= 0xFFFFFFFFULL;
  CHECK(ok == eok, "number parser accepts exactly the Standard's numbers below 2^32");
  if (ok) {
    CHECK(v == e, "parsed value equals the Standard's");
    CHECK(consumed == N, "whole part consumed");
    CHECK(out[8] == (p.R == 10 && !(N >= 2 && in[0] == '0')), "pure-decimal flag is set exactly for decimal without prefix");
    REACH("number accepted");
  }
}
