/* Lock-step twins (C04, C19): from an ARBITRARY INV state (buffer length N) an ada::url_aggregator and an ada::url
 * denoting the same URL record receive the same setter call with the same arbitrary value (length M): both report
 * the same success/failure, and afterwards serialise to the same href and agree on host kind / opaque flag / scheme
 * type.  (KERNEL = F_vk_tw_nop checks that the construction itself is faithful: url::get_href() == buffer.) */
#include "inv.h"
#ifndef M
#define M 0
#endif
#define MM ((M) > 0 ? (M) : 1)
struct inputs { struct st s; uint8_t val[MM]; };
static void st_pack(const struct st* s, uint8_t* o) {
  for (unsigned i = 0; i < 8; i++) { o[4 * i] = (uint8_t)s->c[i]; o[4 * i + 1] = (uint8_t)(s->c[i] >> 8); o[4 * i + 2] = (uint8_t)(s->c[i] >> 16); o[4 * i + 3] = (uint8_t)(s->c[i] >> 24); }
  o[32] = s->type; o[33] = s->opaque; o[34] = s->host_type; o[35] = s->L;
}
void harness(void) {
  INPUTS(I);
  VK_INIT_ALL();
  struct st pre = I.s;
  pre.L = N;
#ifdef SH_TYPE
  pre.type = SH_TYPE;
#endif
  ASSUME(INV(&pre));
  uint8_t in[36 + NN + MM];
  st_pack(&pre, in);
  for (unsigned i = 0; i < N; i++) in[36 + i] = pre.buf[i];
  for (unsigned i = 0; i < M; i++) in[36 + N + i] = I.val[i];
  uint8_t out[64] = {0};
  uint64_t r = KERNEL(in, 36 + N + M, out, 64, 0, 0);
  int ra = r & 1, rv = (r >> 1) & 1, flags = (r >> 2) & 1; uint64_t la = (r >> 8) & 0xffff, lv = (r >> 24) & 0xffff;
  CHECK(la <= 15 && lv <= 15, "MODEL: hrefs fit the modelled buffers");
  if (la <= 15 && lv <= 15) {
    CHECK(ra == rv, "both URL types report the same success / failure of the setter");
    CHECK(la == lv && h_eq(out, out + 32, la), "both URL types serialise to the same href afterwards");
    CHECK(flags, "both URL types agree on host kind, opaque-path flag and scheme type");
    if (ra && !h_eq(out, pre.buf, N)) REACH("the setter changed the URL");
#ifdef NOP
    REACH("construction checked");
#endif
  }
}
