// vk.cpp — the verification shim.  It is the SAME translation unit as the real library:
// it #includes /repo's src/ada.cpp (or the amalgamation when -DVK_AMALGAMATED) and adds
// extern "C" wrappers with ONE uniform signature so that every unit can be driven by the same
// harness / translation-validation / replay machinery:
//
//   uint64_t vk_NAME(const uint8_t* in, uint64_t n, uint8_t* out, uint64_t cap, uint64_t p0, uint64_t p1)
//
// No line of ada is copied here; private members are reached with -fno-access-control.
#include <cstdint>
#include <cstring>
#ifdef VK_AMALGAMATED
#include "ada.cpp"
#else
#include "ada.h"
#include "ada.cpp"
#endif
// (src/ada.cpp already includes ada_c.cpp: the C API is part of the same translation unit)

#define VK(name)                                                                          \
  extern "C" __attribute__((noinline)) uint64_t vk_##name(const uint8_t* in, uint64_t n, \
                                                           uint8_t* out, uint64_t cap,   \
                                                           uint64_t p0, uint64_t p1)
#define UNUSED (void)in, (void)n, (void)out, (void)cap, (void)p0, (void)p1
#define SV std::string_view(reinterpret_cast<const char*>(in), n)

// out-of-line on purpose: its copy loop then has its own name for --unwindset
__attribute__((noinline)) static uint64_t vk_put(uint8_t* out, uint64_t cap, std::string_view s) {
  uint64_t k = s.size() < cap ? s.size() : cap;
  for (uint64_t i = 0; i < k; i++) out[i] = static_cast<uint8_t>(s[i]);
  return s.size();
}
// straight-line on purpose (no loop to bound)
static inline void vk_put_u32(uint8_t* out, uint32_t v) {
  out[0] = uint8_t(v); out[1] = uint8_t(v >> 8); out[2] = uint8_t(v >> 16); out[3] = uint8_t(v >> 24);
}
static inline void vk_put_u64(uint8_t* out, uint64_t v) {
  vk_put_u32(out, uint32_t(v)); vk_put_u32(out + 4, uint32_t(v >> 32));
}

// ---------------------------------------------------------------- IPv4 / IPv6 kernels (C10, C18)
VK(ipv4_fast) { UNUSED; return ada::checkers::try_parse_ipv4_fast(SV); }
VK(is_ipv4) { UNUSED; return ada::checkers::is_ipv4(SV); }
// out[0..8)=value, out[8]=pure; returns ok | consumed<<8
VK(ipv4_number) {
  UNUSED;
  const char* p = reinterpret_cast<const char*>(in);
  const char* e = p + n;
  uint64_t v = 0;
  bool pure = false;
  bool ok = ada::detail::parse_ipv4_number(p, e, v, pure);
  vk_put_u64(out, v);
  out[8] = pure;
  return uint64_t(ok) | (uint64_t(p - reinterpret_cast<const char*>(in)) << 8);
}
// returns ok | host_type<<8 | is_valid<<16 | len<<32 ; out = host text
VK(url_parse_ipv4) {
  UNUSED;
  ada::url u;
  bool ok = u.parse_ipv4(SV);
  uint64_t len = 0;
  if (u.host.has_value()) len = vk_put(out, cap, *u.host);
  return uint64_t(ok) | (uint64_t(u.host_type) << 8) | (uint64_t(u.is_valid) << 16) |
         (uint64_t(u.host.has_value()) << 24) | (len << 32);
}
VK(url_parse_ipv6) {
  UNUSED;
  ada::url u;
  bool ok = u.parse_ipv6(SV);
  uint64_t len = 0;
  if (u.host.has_value()) len = vk_put(out, cap, *u.host);
  return uint64_t(ok) | (uint64_t(u.host_type) << 8) | (uint64_t(u.is_valid) << 16) |
         (uint64_t(u.host.has_value()) << 24) | (len << 32);
}
// url_aggregator twins: a special-scheme aggregator whose buffer is "ws://" with an empty host slot
static inline void vk_agg_empty_ws(ada::url_aggregator& u) {
  u.buffer = "ws://";
  u.components.protocol_end = 3;
  u.components.username_end = 5;
  u.components.host_start = 5;
  u.components.host_end = 5;
  u.components.port = ada::url_components::omitted;
  u.components.pathname_start = 5;
  u.components.search_start = ada::url_components::omitted;
  u.components.hash_start = ada::url_components::omitted;
  u.type = ada::scheme::type::WS;
  u.is_valid = true;
}
static inline uint64_t vk_agg_host_result(ada::url_aggregator& u, bool ok, uint8_t* out, uint64_t cap) {
  uint64_t len = 0;
  bool has = u.components.host_end >= u.components.host_start && u.components.host_end <= u.buffer.size();
  if (has) len = vk_put(out, cap, std::string_view(u.buffer).substr(u.components.host_start, u.components.host_end - u.components.host_start));
  return uint64_t(ok) | (uint64_t(u.host_type) << 8) | (uint64_t(u.is_valid) << 16) | (uint64_t(has) << 24) | (len << 32);
}
VK(agg_parse_ipv4) {
  UNUSED;
  ada::url_aggregator u;
  vk_agg_empty_ws(u);
  bool ok = u.parse_ipv4(SV, false);
  return vk_agg_host_result(u, ok, out, cap);
}
VK(agg_parse_ipv6) {
  UNUSED;
  ada::url_aggregator u;
  vk_agg_empty_ws(u);
  bool ok = u.parse_ipv6(SV);
  return vk_agg_host_result(u, ok, out, cap);
}
VK(ser_ipv4) {
  UNUSED;
  std::string s = ada::serializers::ipv4(p0);
  return vk_put(out, cap, s);
}
// in = 8 little-endian u16 pieces
VK(ser_ipv6) {
  UNUSED;
  std::array<uint16_t, 8> a{};
  for (int i = 0; i < 8; i++) a[i] = uint16_t(in[2 * i] | (in[2 * i + 1] << 8));
  std::string s = ada::serializers::ipv6(a);
  return vk_put(out, cap, s);
}
VK(ipv6_longest) {
  UNUSED;
  std::array<uint16_t, 8> a{};
  for (int i = 0; i < 8; i++) a[i] = uint16_t(in[2 * i] | (in[2 * i + 1] << 8));
  size_t compress = 0, compress_length = 0;
  ada::serializers::find_longest_sequence_of_ipv6_pieces(a, compress, compress_length);
  return uint64_t(compress) | (uint64_t(compress_length) << 32);
}
// out[0..2)=value ; returns length | consumed<<8
VK(hex_piece) {
  UNUSED;
  const char* p = reinterpret_cast<const char*>(in);
  const char* e = p + n;
  uint16_t v = 0;
  int len = ada::detail::parse_hex_piece(p, e, v);
  out[0] = uint8_t(v);
  out[1] = uint8_t(v >> 8);
  return uint64_t(uint32_t(len)) | (uint64_t(p - reinterpret_cast<const char*>(in)) << 32);
}
#if defined(ADA_AVX512)
VK(ipv6_plausible) {
  UNUSED;
  return ada::detail::ipv6_structure_plausible(reinterpret_cast<const char*>(in), n);
}
#endif
VK(verify_dns_length) { UNUSED; return ada::checkers::verify_dns_length(SV); }

// ---------------------------------------------------------------- scanners (C01, C02, C18)
VK(next_host_delim_special) { UNUSED; return ada::helpers::find_next_host_delimiter_special(SV, p0); }
VK(next_host_delim) { UNUSED; return ada::helpers::find_next_host_delimiter(SV, p0); }
VK(has_tabs_or_newline) { UNUSED; return ada::unicode::has_tabs_or_newline(SV); }
VK(authority_delim_special) { UNUSED; return ada::helpers::find_authority_delimiter_special(SV); }
VK(authority_delim) { UNUSED; return ada::helpers::find_authority_delimiter(SV); }
// p0 = is_special; returns location | found_colon<<32 | newsize<<40
VK(host_delim_location) {
  UNUSED;
  std::string_view v = SV;
  auto r = ada::helpers::get_host_delimiter_location(p0 != 0, v);
  return uint64_t(r.first) | (uint64_t(r.second) << 32) | (uint64_t(v.size()) << 40);
}
// returns offset | size<<32
VK(trim_c0) {
  UNUSED;
  std::string_view v = SV;
  ada::helpers::trim_c0_whitespace(v);
  return uint64_t(v.data() - reinterpret_cast<const char*>(in)) | (uint64_t(v.size()) << 32);
}
// returns has_hash | newsize<<8 | hash_off<<24 | hash_size<<40
VK(prune_hash) {
  UNUSED;
  std::string_view v = SV;
  auto h = ada::helpers::prune_hash(v);
  uint64_t r = uint64_t(h.has_value()) | (uint64_t(v.size()) << 8);
  if (h) r |= (uint64_t(h->data() - reinterpret_cast<const char*>(in)) << 24) | (uint64_t(h->size()) << 40);
  return r;
}

// ---------------------------------------------------------------- percent-encoding (C11, C02, C05)
static inline const uint8_t* vk_set(uint64_t k) {
  switch (k) {
    case 0: return ada::character_sets::C0_CONTROL_PERCENT_ENCODE;
    case 1: return ada::character_sets::FRAGMENT_PERCENT_ENCODE;
    case 2: return ada::character_sets::QUERY_PERCENT_ENCODE;
    case 3: return ada::character_sets::SPECIAL_QUERY_PERCENT_ENCODE;
    case 4: return ada::character_sets::PATH_PERCENT_ENCODE;
    case 5: return ada::character_sets::USERINFO_PERCENT_ENCODE;
    default: return ada::character_sets::WWW_FORM_URLENCODED_PERCENT_ENCODE;
  }
}
VK(bit_at) { UNUSED; return ada::character_sets::bit_at(vk_set(p0), uint8_t(p1)); }
VK(hex_entry) {
  UNUSED;
  const char* h = ada::character_sets::hex + uint8_t(p0) * 4;
  out[0] = h[0]; out[1] = h[1]; out[2] = h[2]; out[3] = h[3];
  return 0;
}
VK(percent_encode) {
  UNUSED;
  std::string s = ada::unicode::percent_encode(SV, vk_set(p0));
  return vk_put(out, cap, s);
}
// overload with index: p1 = index returned by percent_encode_index
VK(percent_encode_idx) {
  UNUSED;
  size_t idx = ada::unicode::percent_encode_index(SV, vk_set(p0));
  std::string s = ada::unicode::percent_encode(SV, vk_set(p0), idx);
  return vk_put(out, cap, s) | (uint64_t(idx) << 32);
}
// template<bool append> overload; p1 = append? ; returns changed | len<<8
VK(percent_encode_out) {
  UNUSED;
  std::string o;
  bool ch;
  if (p1) { o = "ab"; ch = ada::unicode::percent_encode<true>(SV, vk_set(p0), o); }
  else { ch = ada::unicode::percent_encode<false>(SV, vk_set(p0), o); }
  return uint64_t(ch) | (vk_put(out, cap, o) << 8);
}
VK(percent_decode) {
  UNUSED;
  std::string_view v = SV;
  size_t fp = v.find('%');
  if (fp == std::string_view::npos) return vk_put(out, cap, v) | (uint64_t(1) << 32);
  std::string s = ada::unicode::percent_decode(v, fp);
  return vk_put(out, cap, s);
}
VK(form_decode) {
  UNUSED;
  std::string s = ada::unicode::form_urlencoded_decode(SV);
  return vk_put(out, cap, s);
}

// ---------------------------------------------------------------- byte classes / tables (C01, C11)
VK(byte_classes) {
  UNUSED;
  char c = char(uint8_t(p0));
  uint64_t r = 0;
  r |= uint64_t(ada::unicode::is_forbidden_host_code_point(c)) << 0;
  r |= uint64_t(ada::unicode::is_forbidden_domain_code_point(c)) << 1;
  r |= uint64_t(ada::unicode::is_alnum_plus(c)) << 2;
  r |= uint64_t(ada::unicode::is_ascii_hex_digit(c)) << 3;
  r |= uint64_t(ada::unicode::is_ascii_digit(c)) << 4;
  r |= uint64_t(ada::unicode::is_c0_control_or_space(c)) << 5;
  r |= uint64_t(ada::unicode::is_ascii_tab_or_newline(c)) << 6;
  r |= uint64_t(ada::unicode::is_lowercase_hex(c)) << 7;
  r |= uint64_t(ada::checkers::is_alpha(c)) << 8;
  r |= uint64_t(ada::checkers::is_digit(c)) << 9;
  r |= uint64_t(ada::checkers::path_signature(std::string_view(&c, 1))) << 16;
  r |= uint64_t(ada::unicode::contains_forbidden_domain_code_point_or_upper(&c, 1)) << 24;
  return r;
}
VK(hex_to_binary) { UNUSED; return ada::unicode::convert_hex_to_binary(char(uint8_t(p0))); }
VK(path_signature) { UNUSED; return ada::checkers::path_signature(SV); }
VK(forbidden_domain_or_upper) {
  UNUSED;
  return ada::unicode::contains_forbidden_domain_code_point_or_upper(reinterpret_cast<const char*>(in), n);
}
VK(forbidden_domain) {
  UNUSED;
  return ada::unicode::contains_forbidden_domain_code_point(reinterpret_cast<const char*>(in), n);
}
VK(dot_segments) {
  UNUSED;
  return uint64_t(ada::unicode::is_single_dot_path_segment(SV)) |
         (uint64_t(ada::unicode::is_double_dot_path_segment(SV)) << 1) |
         (uint64_t(ada::checkers::is_windows_drive_letter(SV)) << 2) |
         (uint64_t(ada::checkers::is_normalized_windows_drive_letter(SV)) << 3);
}
VK(scheme_info) {
  UNUSED;
  auto t = ada::scheme::get_scheme_type(SV);
  return uint64_t(t) | (uint64_t(ada::scheme::is_special(SV)) << 8) |
         (uint64_t(ada::scheme::get_special_port(SV)) << 16) | (uint64_t(ada::scheme::get_special_port(t)) << 32);
}
VK(to_lower_ascii) {
  UNUSED;
  for (uint64_t i = 0; i < n && i < cap; i++) out[i] = in[i];
  bool r = ada::unicode::to_lower_ascii(reinterpret_cast<char*>(out), n < cap ? n : cap);
  return r;
}

// ---------------------------------------------------------------- url_aggregator as a state (C03, C07, C09, C17, C19)
// in  = [ 8 x u32 LE offsets | type | has_opaque_path | host_type | L ] [ buffer (L bytes) ] [ value (n-36-L bytes) ]
// out = same header + buffer of the post-state ; return = rv | validate<<8 | post_L<<16 | is_valid<<32
#define VK_HDR 36
#ifndef VK_RESERVE
#define VK_RESERVE 0
#endif
static inline void vk_load(ada::url_aggregator& u, const uint8_t* in) {
  auto rd = [&](int i) { return uint32_t(in[4 * i]) | (uint32_t(in[4 * i + 1]) << 8) | (uint32_t(in[4 * i + 2]) << 16) | (uint32_t(in[4 * i + 3]) << 24); };
  if (VK_RESERVE) u.buffer.reserve(VK_RESERVE);
  u.buffer.assign(reinterpret_cast<const char*>(in + VK_HDR), in[35]);
  u.components.protocol_end = rd(0); u.components.username_end = rd(1); u.components.host_start = rd(2);
  u.components.host_end = rd(3); u.components.port = rd(4); u.components.pathname_start = rd(5);
  u.components.search_start = rd(6); u.components.hash_start = rd(7);
  u.type = ada::scheme::type(in[32]); u.has_opaque_path = in[33] != 0; u.host_type = ada::url_host_type(in[34]);
  u.is_valid = true;
}
static inline uint64_t vk_save(const ada::url_aggregator& u, uint8_t* out, uint64_t cap, uint64_t rv) {
  vk_put_u32(out + 0, u.components.protocol_end); vk_put_u32(out + 4, u.components.username_end);
  vk_put_u32(out + 8, u.components.host_start); vk_put_u32(out + 12, u.components.host_end);
  vk_put_u32(out + 16, u.components.port); vk_put_u32(out + 20, u.components.pathname_start);
  vk_put_u32(out + 24, u.components.search_start); vk_put_u32(out + 28, u.components.hash_start);
  out[32] = uint8_t(u.type); out[33] = u.has_opaque_path; out[34] = uint8_t(u.host_type);
  uint64_t L = u.buffer.size();
  out[35] = uint8_t(L);
  vk_put(out + VK_HDR, cap - VK_HDR, u.buffer);
  return (rv & 0xff) | (uint64_t(u.validate()) << 8) | (L << 16) | (uint64_t(u.is_valid) << 32);
}
#define VK_VALUE std::string_view(reinterpret_cast<const char*>(in + VK_HDR + in[35]), n - VK_HDR - in[35])
#define VK_STEP(name, call)                \
  VK(st_##name) {                          \
    UNUSED;                                \
    ada::url_aggregator u;                 \
    vk_load(u, in);                        \
    uint64_t rv = 1;                       \
    call;                                  \
    return vk_save(u, out, cap, rv);       \
  }
VK_STEP(validate, (void)0)
VK_STEP(clear_port, u.clear_port())
VK_STEP(clear_hash, u.clear_hash())
VK_STEP(clear_search, u.clear_search())
VK_STEP(clear_pathname, u.clear_pathname())
VK_STEP(clear_hostname, u.clear_hostname())
VK_STEP(clear_password, u.clear_password())
VK_STEP(update_base_username, u.update_base_username(VK_VALUE))
VK_STEP(append_base_username, u.append_base_username(VK_VALUE))
VK_STEP(update_base_password, u.update_base_password(VK_VALUE))
VK_STEP(append_base_password, u.append_base_password(VK_VALUE))
VK_STEP(update_base_hostname, u.update_base_hostname(VK_VALUE))
VK_STEP(update_base_pathname, u.update_base_pathname(VK_VALUE))
VK_STEP(append_base_pathname, u.append_base_pathname(VK_VALUE))
VK_STEP(update_base_search, u.update_base_search(VK_VALUE))
VK_STEP(update_base_search_enc, u.update_base_search(VK_VALUE, u.is_special() ? ada::character_sets::SPECIAL_QUERY_PERCENT_ENCODE : ada::character_sets::QUERY_PERCENT_ENCODE))
VK_STEP(update_unencoded_base_hash, u.update_unencoded_base_hash(VK_VALUE))
VK_STEP(update_base_port, u.update_base_port(uint32_t(p0)))
VK_STEP(add_authority_slashes, u.add_authority_slashes_if_needed())
VK_STEP(delete_dash_dot, u.delete_dash_dot())
// the pair the empty-host branch of the host setters runs on an authority-less URL
VK_STEP(authority_without_guard, { u.add_authority_slashes_if_needed(); if (u.has_dash_dot()) u.delete_dash_dot(); })
VK_STEP(set_scheme, u.set_scheme(VK_VALUE))
VK_STEP(set_scheme_with_colon, u.set_scheme_from_view_with_colon(VK_VALUE))
VK_STEP(set_protocol_as_file, u.set_protocol_as_file())
VK_STEP(set_protocol, rv = u.set_protocol(VK_VALUE))
VK_STEP(set_username, rv = u.set_username(VK_VALUE))
VK_STEP(set_password, rv = u.set_password(VK_VALUE))
VK_STEP(set_port, rv = u.set_port(VK_VALUE))
VK_STEP(set_pathname, rv = u.set_pathname(VK_VALUE))
VK_STEP(set_search, u.set_search(VK_VALUE))
VK_STEP(set_hash, u.set_hash(VK_VALUE))
VK_STEP(set_host, rv = u.set_host(VK_VALUE))
VK_STEP(set_hostname, rv = u.set_hostname(VK_VALUE))

// parse a URL string (in[0..n)) with the real parser; p0 != 0: the first p0 bytes are the base.  out = state (see above)
VK(parse_state) {
  UNUSED;
  ada::result<ada::url_aggregator> r;
  if (p0) {
    auto b = ada::parse<ada::url_aggregator>(std::string_view(reinterpret_cast<const char*>(in), p0));
    if (!b) return 0;
    r = ada::parse<ada::url_aggregator>(std::string_view(reinterpret_cast<const char*>(in + p0), n - p0), &*b);
  } else {
    r = ada::parse<ada::url_aggregator>(SV);
  }
  if (!r) return 0;
  if (r->buffer.size() + VK_HDR > cap || r->buffer.size() > 255) return 2;
  vk_save(*r, out, cap, 1);
  return 1 | (uint64_t(r->buffer.size()) << 16);
}

VK(set_limit) { UNUSED; ada::set_max_input_length(uint32_t(p0)); return ada::get_max_input_length(); }

// ---------------------------------------------------------------- can_parse (C08)
// returns 0 = false, 1 = true, 2 = nullopt (defer to the full parser)
VK(can_parse_fast) {
  UNUSED;
  auto r = ada::try_can_parse_absolute_fast(SV);
  return r.has_value() ? uint64_t(*r) : 2;
}

// ---------------------------------------------------------------- C API (C17)
#if 1
// A handle is an ada::result<ada::url_aggregator> on the stack holding (p1 == 0) the loaded state or (p1 != 0) an error.
// p0 selects the function.  String getters: returns c_len | cpp_len<<16 | same_pointer<<32 | c_null<<33 | cpp_applicable<<34.
// Predicates / scalars (p0 >= 16): returns c_value | cpp_value<<16.
VK(capi_get) {
  UNUSED;
  ada::result<ada::url_aggregator> r = tl::unexpected(ada::errors::type_error);
  if (p1 == 0) {
    ada::url_aggregator u;
    vk_load(u, in);
    r = std::move(u);
  }
  void* h = &r;
  if (p0 < 16) {
    ada_string c{};
    std::string_view v;
    switch (p0) {
      case 0: c = ada_get_href(h); if (r) v = r->get_href(); break;
      case 1: c = ada_get_username(h); if (r) v = r->get_username(); break;
      case 2: c = ada_get_password(h); if (r) v = r->get_password(); break;
      case 3: c = ada_get_port(h); if (r) v = r->get_port(); break;
      case 4: c = ada_get_hash(h); if (r) v = r->get_hash(); break;
      case 5: c = ada_get_host(h); if (r) v = r->get_host(); break;
      case 6: c = ada_get_hostname(h); if (r) v = r->get_hostname(); break;
      case 7: c = ada_get_pathname(h); if (r) v = r->get_pathname(); break;
      case 8: c = ada_get_search(h); if (r) v = r->get_search(); break;
      default: c = ada_get_protocol(h); if (r) v = r->get_protocol(); break;
    }
    bool same = r.has_value() && (c.length == 0 ? v.size() == 0 : c.data == v.data());
    return uint64_t(c.length & 0xffff) | (uint64_t(v.size() & 0xffff) << 16) | (uint64_t(same) << 32) |
           (uint64_t(c.data == nullptr) << 33) | (uint64_t(r.has_value()) << 34);
  }
  uint64_t cv = 0, pv = 0;
  switch (p0) {
    case 16: cv = ada_has_credentials(h); if (r) pv = r->has_credentials(); break;
    case 17: cv = ada_has_empty_hostname(h); if (r) pv = r->has_empty_hostname(); break;
    case 18: cv = ada_has_hostname(h); if (r) pv = r->has_hostname(); break;
    case 19: cv = ada_has_non_empty_username(h); if (r) pv = r->has_non_empty_username(); break;
    case 20: cv = ada_has_non_empty_password(h); if (r) pv = r->has_non_empty_password(); break;
    case 21: cv = ada_has_port(h); if (r) pv = r->has_port(); break;
    case 22: cv = ada_has_password(h); if (r) pv = r->has_password(); break;
    case 23: cv = ada_has_hash(h); if (r) pv = r->has_hash(); break;
    case 24: cv = ada_has_search(h); if (r) pv = r->has_search(); break;
    case 25: cv = ada_is_valid(h); pv = r.has_value(); break;
    case 26: cv = ada_get_host_type(h); if (r) pv = r->host_type; break;
    case 27: cv = ada_get_scheme_type(h); if (r) pv = r->type; break;
    default: {
      const ada_url_components* c = ada_get_components(h);
      if (!r) { cv = (c == nullptr); pv = 1; break; }
      if (c == nullptr) { cv = 0xdead; break; }
      const ada::url_components& k = r->get_components();
      cv = (c->protocol_end == k.protocol_end) && (c->username_end == k.username_end) && (c->host_start == k.host_start) &&
           (c->host_end == k.host_end) && (c->port == k.port) && (c->pathname_start == k.pathname_start) &&
           (c->search_start == k.search_start) && (c->hash_start == k.hash_start);
      pv = 1;
    }
  }
  return (cv & 0xffff) | ((pv & 0xffff) << 16) | (uint64_t(r.has_value()) << 34);
}
// owned strings: a block of p0 bytes handed out as ada_owned_string must be released by ada_free_owned_string
VK(capi_owned) {
  UNUSED;
  ada_owned_string o{};
  o.length = p0;
  o.data = new char[p0];
  *reinterpret_cast<const char**>(out) = o.data;  // the pointer escapes: the allocation cannot be elided by the compiler
  ada_free_owned_string(o);
  return 0;
}
// setters / clear on a failed handle: no crash, false
VK(capi_failed_mutators) {
  UNUSED;
  ada::result<ada::url_aggregator> r = tl::unexpected(ada::errors::type_error);
  void* h = &r;
  const char* s = reinterpret_cast<const char*>(in);
  uint64_t v = 0;
  v |= uint64_t(ada_set_href(h, s, n)) << 0; v |= uint64_t(ada_set_host(h, s, n)) << 1; v |= uint64_t(ada_set_hostname(h, s, n)) << 2;
  v |= uint64_t(ada_set_protocol(h, s, n)) << 3; v |= uint64_t(ada_set_username(h, s, n)) << 4; v |= uint64_t(ada_set_password(h, s, n)) << 5;
  v |= uint64_t(ada_set_port(h, s, n)) << 6; v |= uint64_t(ada_set_pathname(h, s, n)) << 7;
  ada_set_search(h, s, n); ada_set_hash(h, s, n); ada_clear_port(h); ada_clear_hash(h); ada_clear_search(h);
  v |= uint64_t(r.has_value()) << 8;
  ada_owned_string o = ada_get_origin(h);
  v |= uint64_t(o.data != nullptr || o.length != 0) << 9;
  return v;
}
#endif

// ---------------------------------------------------------------- lazy Unicode tables (C13)
VK(ensure_tables) { UNUSED; return ada::idna::ensure_tables(); }
VK(tables_are_ready) { UNUSED; return ada::idna::tables_are_ready(); }
// number of table pointers that are non-null (20 tables + the owning buffer = 21 when published)
VK(tables_published) {
  UNUSED;
  using namespace ada::idna;
  unsigned k = 0;
  k += idna_stage1 != nullptr; k += idna_stage2 != nullptr; k += idna_bool_blocks != nullptr; k += idna_utf8_mappings != nullptr;
  k += decomposition_index != nullptr; k += decomposition_block_flat != nullptr; k += decomposition_data != nullptr;
  k += ccc_index != nullptr; k += ccc_block_flat != nullptr; k += composition_index != nullptr;
  k += composition_block_flat != nullptr; k += composition_data != nullptr; k += id_continue != nullptr; k += id_start != nullptr;
  k += dir_start != nullptr; k += dir_final != nullptr; k += dir_value != nullptr; k += combining_ranges != nullptr;
  k += tables_buffer != nullptr;
  return k;
}
// the ENVIRONMENT's publication step in the C13 harness (what a peer that won the CAS does before storing READY)
VK(tables_env_publish) {
  UNUSED;
  using namespace ada::idna;
  uint8_t* b = out;
  idna_stage1 = reinterpret_cast<const uint16_t*>(b); idna_stage2 = reinterpret_cast<const uint16_t*>(b);
  idna_bool_blocks = reinterpret_cast<const uint64_t*>(b); idna_utf8_mappings = b;
  decomposition_index = b; decomposition_block_flat = reinterpret_cast<const uint16_t*>(b);
  decomposition_data = reinterpret_cast<const char32_t*>(b); ccc_index = b; ccc_block_flat = b; composition_index = b;
  composition_block_flat = reinterpret_cast<const uint16_t*>(b); composition_data = reinterpret_cast<const char32_t*>(b);
  id_continue = reinterpret_cast<range_pair_ptr>(b); id_start = reinterpret_cast<range_pair_ptr>(b);
  dir_start = reinterpret_cast<const uint32_t*>(b); dir_final = reinterpret_cast<const uint32_t*>(b); dir_value = b;
  combining_ranges = reinterpret_cast<range_pair_ptr>(b);
  tables_buffer = b;
  return 0;
}

// ---------------------------------------------------------------- URLPattern canonicalisation kernels (C15) and escapes (C14)
#if ADA_INCLUDE_URL_PATTERN
static const char* const vk_proto_names[6] = {"http", "https", "ws", "ftp", "sc", "https:"};
static inline std::string_view vk_proto(uint64_t k) { return k < 6 ? std::string_view(vk_proto_names[k]) : std::string_view(); }
// p0: 0 protocol, 1 username, 2 password, 3 port, 4 search, 5 hash, 6 port_with_protocol(p1), 7 ipv6_hostname, 8 hostname
// returns ok | len<<8 ; out = canonical text
VK(canon) {
  UNUSED;
  namespace h = ada::url_pattern_helpers;
  tl::expected<std::string, ada::errors> r = tl::unexpected(ada::errors::type_error);
  switch (p0) {
    case 0: r = h::canonicalize_protocol(SV); break;
    case 1: r = h::canonicalize_username(SV); break;
    case 2: r = h::canonicalize_password(SV); break;
    case 3: r = h::canonicalize_port(SV); break;
    case 4: r = h::canonicalize_search(SV); break;
    case 5: r = h::canonicalize_hash(SV); break;
    case 6: r = h::canonicalize_port_with_protocol(SV, vk_proto(p1)); break;
    case 8: r = h::canonicalize_hostname(SV); break;
    default: r = h::canonicalize_ipv6_hostname(SV); break;
  }
  if (!r) return 0;
  return 1 | (vk_put(out, cap, *r) << 8);
}
// class bits | path_signature<<8 | forbidden-domain-or-upper<<16 of one byte
VK(char_class) {
  UNUSED;
  char c = char(uint8_t(p0));
  return uint64_t(ada::url_pattern_helpers::char_class_table[uint8_t(p0)]) |
         (uint64_t(ada::checkers::path_signature(std::string_view(&c, 1))) << 8) |
         (uint64_t(ada::unicode::contains_forbidden_domain_code_point_or_upper(&c, 1)) << 16);
}
// p0: 0 escape_pattern_string, 1 escape_regexp_string
VK(escape) {
  UNUSED;
  std::string r = p0 ? ada::url_pattern_helpers::escape_regexp_string(SV) : ada::url_pattern_helpers::escape_pattern_string(SV);
  return vk_put(out, cap, r);
}
#endif

// ---------------------------------------------------------------- Punycode (C06, C16)
static inline uint64_t vk_put_u32s(uint8_t* out, uint64_t cap, std::u32string_view s) {
  uint64_t k = s.size() * 4 <= cap ? s.size() : cap / 4;
  for (uint64_t i = 0; i < k; i++) vk_put_u32(out + 4 * i, uint32_t(s[i]));
  return s.size();
}
// ---------------------------------------------------------------- NFC kernels over MODEL tables (C06 / C16)
// The Unicode tables are data (a DEFLATE blob inflated at run time); the algorithms around them are what the solver
// checks, for EVERY table content: the harness supplies the tables inside `in` and the wrapper points the library's table
// pointers at them.  Layout of `in` (all offsets multiples of 4): 0 code points u32[8] ; 32 ccc_index[216] ;
// 248 ccc_block[2][256] ; 760 composition_index[216] ; 976 composition_block u16[2][257] ; 2004 composition_data u32[12] ;
// 2052 decomposition_index[216] ; 2268 decomposition_block u16[2][257] ; 3296 (end).
#define VK_NFC_IN_SIZE 3296
static void vk_nfc_install(const uint8_t* in) {
  using namespace ada::idna;
  ccc_index = in + 32; ccc_block_flat = in + 248;
  composition_index = in + 760; composition_block_flat = reinterpret_cast<const uint16_t*>(in + 976);
  composition_data = reinterpret_cast<const char32_t*>(in + 2004);
  decomposition_index = in + 2052; decomposition_block_flat = reinterpret_cast<const uint16_t*>(in + 2268);
  tables_init_state.store(kTablesReady, std::memory_order_release);
}
// A std::u32string that works IN PLACE on the caller's buffer (capacity 8): no construction copy, so that the solver
// sees typed accesses to one array.  Detached again before the destructor runs.
struct vk_u32_inplace {
  std::u32string s;
  vk_u32_inplace(const uint8_t* in, uint64_t n) {
    s._M_dataplus._M_p = reinterpret_cast<char32_t*>(const_cast<uint8_t*>(in));
    s._M_string_length = n;
    s._M_allocated_capacity = 8;
  }
  ~vk_u32_inplace() { s._M_dataplus._M_p = s._M_local_buf; s._M_string_length = 0; }
};
// p0 = number of code points (<= 7, in place in in[0..32)), p1 & 1 = 0 sort_marks / 1 compose, p1 & 2: the tables are
// already installed (the solver harness points the table pointers at typed arrays of its own);
// returns new length | would_compose << 32 ; out = the resulting code points (u32 LE)
VK(nfc_kernel) {
  UNUSED;
  if (!(p1 & 2)) vk_nfc_install(in);
  uint64_t would = 0, len;
  {
    vk_u32_inplace w(in, p0);
    if ((p1 & 1) == 0) ada::idna::sort_marks(w.s);
    else { would = ada::idna::would_compose(w.s); ada::idna::compose(w.s); }
    len = w.s.size();
  }
  const char32_t* r = reinterpret_cast<const char32_t*>(in);
  for (uint64_t i = 0; i < len && 4 * i + 4 <= cap; i++) vk_put_u32(out + 4 * i, r[i]);
  return len | (would << 32);
}
// the "already NFC" shortcut against the pieces of the full pipeline: bit0 is_already_nfc, bit1 would_compose,
// bit2 marks are not in canonical order (sort_marks would move one), bit3 some code point has a singleton decomposition
VK(nfc_quick) {
  UNUSED;
  if (!(p1 & 2)) vk_nfc_install(in);
  std::u32string_view s(reinterpret_cast<const char32_t*>(in), p0);
  uint64_t r = ada::idna::is_already_nfc(s) ? 1 : 0;
  if (ada::idna::would_compose(s)) r |= 2;
  for (char32_t c : s) if (ada::idna::canonical_decomp_length(c) == 1) r |= 8;
  return r;
}
// real tables: NFC of a code point string (u32 LE in, u32 LE out) ; domain-to-ASCII as the WPT runners call it
VK(nfc_real) {
  UNUSED;
  std::u32string s(n / 4, U'\0');
  memcpy(s.data(), in, 4 * (n / 4));
  if (!ada::idna::normalize(s)) return ~0ull;
  if (4 * s.size() > cap) return ~0ull;
  memcpy(out, s.data(), 4 * s.size());
  return s.size();
}
VK(to_ascii_vec) {
  UNUSED;
  std::optional<std::string> o;
  std::string_view input = SV;
  ada::unicode::to_ascii(o, input, input.find('%'));
  if (!o.has_value()) return 1ull << 32;
  if (o->size() > cap) return ~0ull;
  memcpy(out, o->data(), o->size());
  return o->size();
}
VK(puny_verify) { UNUSED; return ada::idna::verify_punycode(SV); }
// returns ok | count<<8 ; out = decoded code points (LE32)
VK(puny_decode) {
  UNUSED;
  std::u32string o;
  bool ok = ada::idna::punycode_to_utf32(SV, o);
  return uint64_t(ok) | (vk_put_u32s(out, cap, o) << 8);
}
// in = n/4 code points (LE32); returns ok | len<<8 ; out = punycode (without "xn--")
VK(puny_encode) {
  UNUSED;
  std::u32string u;
  for (uint64_t i = 0; i + 3 < n; i += 4) u.push_back(char32_t(uint32_t(in[i]) | (uint32_t(in[i + 1]) << 8) | (uint32_t(in[i + 2]) << 16) | (uint32_t(in[i + 3]) << 24)));
  std::string o;
  bool ok = ada::idna::utf32_to_punycode(u, o);
  return uint64_t(ok) | (vk_put(out, cap, o) << 8);
}
// ada::idna::to_ascii(string_view, std::string&): returns ok | len<<8 ; out = result
VK(idna_to_ascii) {
  UNUSED;
  std::string o;
  bool ok = ada::idna::to_ascii(SV, o);
  return uint64_t(ok) | (vk_put(out, cap, o) << 8);
}

// ---------------------------------------------------------------- http(s) fast path (C01, C05, C11)
// in = whole input; returns accepted | post_L<<16 ; out = state of the produced url_aggregator
VK(fast_path) {
  UNUSED;
  ada::url_aggregator u;
  bool ok = ada::parser::try_parse_simple_absolute<ada::url_aggregator>(SV, u);
  if (!ok) return 0;
  return vk_save(u, out, cap, 1);
}

// ---------------------------------------------------------------- shorten_path twins (C04, C01)
// p0 = scheme type; p1 = 0: std::string overload (ada::url), 1: std::string_view overload (ada::url_aggregator)
// returns changed | newlen<<8 ; out = shortened path
VK(shorten_path) {
  UNUSED;
  ada::scheme::type t = ada::scheme::type(p0);
  if (p1 == 0) {
    std::string s(SV);
    bool r = ada::helpers::shorten_path(s, t);
    return uint64_t(r) | (vk_put(out, cap, s) << 8);
  }
  std::string_view v = SV;
  bool r = ada::helpers::shorten_path(v, t);
  return uint64_t(r) | (vk_put(out, cap, v) << 8);
}

// ---------------------------------------------------------------- lock-step twins: the same setter on url_aggregator and ada::url (C04, C19)
// The ada::url is built from the aggregator's getters, i.e. both objects denote the same URL record.
static inline void vk_url_from_agg(ada::url& v, const ada::url_aggregator& u) {
  v.type = u.type; v.has_opaque_path = u.has_opaque_path; v.host_type = u.host_type; v.is_valid = true;
  if (!u.is_special()) { std::string_view p = u.get_protocol(); if (!p.empty()) p.remove_suffix(1); v.non_special_scheme = std::string(p); }
  v.username = std::string(u.get_username());
  v.password = std::string(u.get_password());
  if (u.has_hostname()) v.host = std::string(u.get_hostname());
  if (u.components.port != ada::url_components::omitted) v.port = uint16_t(u.components.port);
  v.path = std::string(u.get_pathname());
  std::string_view b = u.buffer;
  if (u.has_search()) {
    size_t e = u.has_hash() ? u.components.hash_start : b.size();
    v.query = std::string(b.substr(u.components.search_start + 1, e - u.components.search_start - 1));
  }
  if (u.has_hash()) v.hash = std::string(b.substr(u.components.hash_start + 1));
}
// out[0..32) = aggregator href, out[32..64) = ada::url href ; returns rv_agg | rv_url<<1 | same_flags<<2 | len_agg<<8 | len_url<<24
#define VK_TWIN(name, CALL)                                                                         \
  VK(tw_##name) {                                                                                   \
    UNUSED;                                                                                         \
    ada::url_aggregator u;                                                                          \
    vk_load(u, in);                                                                                 \
    ada::url v;                                                                                     \
    vk_url_from_agg(v, u);                                                                          \
    std::string_view val = VK_VALUE;                                                                \
    bool ra = true, rv = true;                                                                      \
    { auto& x = u; CALL(ra); }                                                                      \
    { auto& x = v; CALL(rv); }                                                                      \
    std::string hv = v.get_href();                                                                  \
    uint64_t la = vk_put(out, 32, u.buffer);                                                        \
    uint64_t lv = vk_put(out + 32, 32, hv);                                                         \
    bool flags = (u.host_type == v.host_type) && (u.has_opaque_path == v.has_opaque_path) && (u.type == v.type); \
    return uint64_t(ra) | (uint64_t(rv) << 1) | (uint64_t(flags) << 2) | (la << 8) | (lv << 24);    \
  }
#define C_SET_PORT(r) r = x.set_port(val)
#define C_SET_USERNAME(r) r = x.set_username(val)
#define C_SET_PASSWORD(r) r = x.set_password(val)
#define C_SET_PROTOCOL(r) r = x.set_protocol(val)
#define C_SET_SEARCH(r) x.set_search(val)
#define C_SET_HASH(r) x.set_hash(val)
#define C_NOP(r) (void)0
VK_TWIN(nop, C_NOP)
VK_TWIN(set_port, C_SET_PORT)
VK_TWIN(set_username, C_SET_USERNAME)
VK_TWIN(set_password, C_SET_PASSWORD)
VK_TWIN(set_protocol, C_SET_PROTOCOL)
VK_TWIN(set_search, C_SET_SEARCH)
VK_TWIN(set_hash, C_SET_HASH)

// ---------------------------------------------------------------- ada::url (field-based type) protocol / port steps (C19, C03, C04)
// in = [type, opaque, host_state(0 null,1 empty,2 "h"), user, pass, has_port, port_lo, port_hi, schemelen] scheme[schemelen] value[...]
// p0: 0 = set_protocol(value), 1 = set_port(value)
// out = [rv, type, has_port, port_lo, port_hi, schemelen, has_host, host_type] scheme...
VK(url_fields_step) {
  UNUSED;
  ada::url v;
  v.type = ada::scheme::type(in[0]);
  v.has_opaque_path = in[1] != 0;
  if (in[2] == 1) v.host = ""; else if (in[2] == 2) v.host = "h";
  if (in[3]) v.username = "u";
  if (in[4]) v.password = "p";
  if (in[5]) v.port = uint16_t(in[6] | (in[7] << 8));
  uint64_t sl = in[8];
  if (!v.is_special()) v.non_special_scheme = std::string(reinterpret_cast<const char*>(in + 9), sl);
  v.path = v.has_opaque_path ? "x" : "/";
  v.is_valid = true;
  std::string_view val(reinterpret_cast<const char*>(in + 9 + sl), n - 9 - sl);
  bool rv = p0 ? v.set_port(val) : v.set_protocol(val);
  std::string proto = v.get_protocol();
  if (!proto.empty()) proto.pop_back();
  out[0] = rv; out[1] = uint8_t(v.type); out[2] = v.port.has_value(); out[3] = uint8_t(v.port.value_or(0)); out[4] = uint8_t(v.port.value_or(0) >> 8);
  out[5] = uint8_t(proto.size()); out[6] = v.host.has_value(); out[7] = uint8_t(v.host_type);
  vk_put(out + 8, cap - 8, proto);
  return rv;
}

// parse under a limit (C09 / C08 base case): in = [base (p0 bytes)] input ; p1 = limit; the base is parsed under the same limit.
// returns bit0 parse ok (aggregator) | bit1 base failed | bit2 ada::url ok (no base only) | bit3 can_parse | href_len<<16
VK(parse_limited) {
  UNUSED;
  ada::set_max_input_length(uint32_t(p1));
  std::string_view input(reinterpret_cast<const char*>(in + p0), n - p0);
  uint64_t res = 0;
  bool cp;
  if (p0) {
    std::string_view bv(reinterpret_cast<const char*>(in), p0);
    cp = ada::can_parse(input, &bv);
    auto b = ada::parse<ada::url_aggregator>(bv);
    if (!b) res |= 2;
    else { auto r = ada::parse<ada::url_aggregator>(input, &*b); if (r) res |= 1 | (uint64_t(r->get_href().size()) << 16); }
  } else {
    cp = ada::can_parse(input);
    auto r = ada::parse<ada::url_aggregator>(input);
    if (r) res |= 1 | (uint64_t(r->get_href().size()) << 16);
    auto r2 = ada::parse<ada::url>(input);
    if (r2) res |= 4;
  }
  if (cp) res |= 8;
  ada::set_max_input_length(0xffffffffu);
  return res;
}

// whole-parse differential for the native base cases (C04, C05, C17): in = [base (p0 bytes)] input.
// returns 0 when the input does not parse (consistently); otherwise 1<<63 | disagreement bits:
//  1 url vs aggregator success, 2 href, 4 a getter / predicate, 8 C API (ada_parse[_with_base]) vs C++, 16 href is not a parse fixed point,
//  32 href byte outside 0x21-0x7E (space allowed strictly inside an opaque path), 64 get_href_size / components
VK(diff_parse) {
  UNUSED;
  std::string_view input(reinterpret_cast<const char*>(in + p0), n - p0);
  std::string_view bv(reinterpret_cast<const char*>(in), p0);
  ada::result<ada::url_aggregator> ba; ada::result<ada::url> bu;
  if (p0) { ba = ada::parse<ada::url_aggregator>(bv); bu = ada::parse<ada::url>(bv); if (!ba || !bu) return (bool(ba) != bool(bu)) ? ((1ull << 63) | 1) : 0; }
  auto a = p0 ? ada::parse<ada::url_aggregator>(input, &*ba) : ada::parse<ada::url_aggregator>(input);
  auto u = p0 ? ada::parse<ada::url>(input, &*bu) : ada::parse<ada::url>(input);
  uint64_t d = 0;
  if (bool(a) != bool(u)) d |= 1;
  void* h = p0 ? ada_parse_with_base(reinterpret_cast<const char*>(in + p0), n - p0, reinterpret_cast<const char*>(in), p0)
               : ada_parse(reinterpret_cast<const char*>(in), n);
  if (ada_is_valid(h) != bool(a)) d |= 8;
  if (a && u) {
    std::string ha(a->get_href()), hu = u->get_href();
    if (ha != hu) d |= 2;
    if (a->get_protocol() != u->get_protocol() || a->get_username() != u->get_username() || a->get_password() != u->get_password() ||
        a->get_host() != u->get_host() || a->get_hostname() != u->get_hostname() || a->get_port() != u->get_port() ||
        a->get_pathname() != u->get_pathname() || a->get_search() != u->get_search() || a->get_hash() != u->get_hash() ||
        a->get_origin() != u->get_origin() || a->has_opaque_path != u->has_opaque_path || a->host_type != u->host_type ||
        a->has_credentials() != u->has_credentials() || a->has_hash() != u->has_hash() || a->has_search() != u->has_search()) d |= 4;
    if (u->get_href_size() != hu.size() || a->get_href_size() != ha.size()) d |= 64;
    if (ada_is_valid(h)) { ada_string s = ada_get_href(h); if (std::string_view(s.data, s.length) != ha) d |= 8; }
    auto again = ada::parse<ada::url_aggregator>(ha);
    if (!again || again->get_href() != ha) d |= 16;
    std::string_view path = a->get_pathname();
    size_t pb = a->get_components().pathname_start, pe = pb + path.size();
    for (size_t i = 0; i < ha.size(); i++) {
      unsigned char c = static_cast<unsigned char>(ha[i]);
      if (c < 0x21 || c > 0x7e) { if (!(c == 0x20 && a->has_opaque_path && i >= pb && i + 1 < pe)) d |= 32; }
    }
  }
  ada_free(h);
  if (!a && !u && d == 0) return 0;
  return (1ull << 63) | d;
}

// native setter sweep (base case for C03/C04/C07/C19 incl. the host setters the solver cannot decide):
// in = [href (p0 bytes)] value ; p1 = setter 0 protocol,1 username,2 password,3 host,4 hostname,5 port,6 pathname,7 search,8 hash,9 href
// returns 0 if href does not parse; else 1<<63 | bits: 1 rv differ, 2 href differ, 4 agg failed but changed, 8 url failed but changed,
// 16 validate() false, 32 href not a parse fixed point, 64 getters differ ; out = aggregator post-state
template <class T>
static bool vk_apply_setter(T& x, uint64_t which, std::string_view v) {
  switch (which) {
    case 0: return x.set_protocol(v);
    case 1: return x.set_username(v);
    case 2: return x.set_password(v);
    case 3: return x.set_host(v);
    case 4: return x.set_hostname(v);
    case 5: return x.set_port(v);
    case 6: return x.set_pathname(v);
    case 7: x.set_search(v); return true;
    case 8: x.set_hash(v); return true;
    default: return x.set_href(v);
  }
}
// url_search_params: construct from the query string, sort(), serialise (C12 base case beyond the solver's bound)
VK(sp_sort) {
  UNUSED;
  ada::url_search_params sp(SV);
  if (p0) sp.sort();
  std::string s = sp.to_string();
  if (s.size() > cap) return ~0ull;
  memcpy(out, s.data(), s.size());
  return s.size();
}
// Setter under a limit (C09 base case): the URL is parsed with no limit; the unlimited outcome of the setter is computed
// on copies; then for L in {|before|, |unlimited result| - 1, |unlimited result|} (only L >= |before|, so that the
// starting URL itself is one the library could have handed out under L) the setter runs under limit L on fresh copies.
// bits (aggregator; << 4 for ada::url): 1 href longer than L ; 2 unlimited result exceeds L but the URL changed ;
// 4 ... but a boolean setter returned true ; 8 value and unlimited result fit within L but the outcome differs
static const uint32_t vk_default_limit = ada::get_max_input_length();
template <class T>
static uint64_t vk_limit_case(const T& pre, uint64_t which, std::string_view val, uint64_t L, const std::string& h0, bool r0) {
  T x = pre;
  std::string before(x.get_href());
  ada::set_max_input_length(uint32_t(L));
  bool r = vk_apply_setter(x, which, val);
  ada::set_max_input_length(vk_default_limit);
  std::string h(x.get_href());
  uint64_t d = 0;
  if (h.size() > L) d |= 1;
  if (h0.size() > L) {
    if (h != before) d |= 2;
    if (r && which != 7 && which != 8) d |= 4;
  } else if (val.size() <= L) {
    if (h != h0 || r != r0) d |= 8;
  }
  return d;
}
VK(setter_limit) {
  UNUSED;
  std::string_view href(reinterpret_cast<const char*>(in), p0), val(reinterpret_cast<const char*>(in + p0), n - p0);
  auto a = ada::parse<ada::url_aggregator>(href);
  auto u = ada::parse<ada::url>(href);
  if (!a || !u) return 0;
  ada::url_aggregator a0 = *a; ada::url u0 = *u;
  bool ra0 = vk_apply_setter(a0, p1, val), ru0 = vk_apply_setter(u0, p1, val);
  std::string ha0(a0.get_href()), hu0 = u0.get_href();
  uint64_t before = a->get_href().size(), d = 0;
  uint64_t Ls[3] = {before, ha0.size() ? ha0.size() - 1 : 0, ha0.size()};
  for (int i = 0; i < 3; i++) {
    if (Ls[i] < before || Ls[i] == 0) continue;
    d |= vk_limit_case(*a, p1, val, Ls[i], ha0, ra0);
    d |= vk_limit_case(*u, p1, val, Ls[i], hu0, ru0) << 4;
  }
  return (1ull << 63) | d;
}
VK(setter_sweep) {
  UNUSED;
  std::string_view href(reinterpret_cast<const char*>(in), p0), val(reinterpret_cast<const char*>(in + p0), n - p0);
  auto a = ada::parse<ada::url_aggregator>(href);
  auto u = ada::parse<ada::url>(href);
  if (!a || !u) return 0;
  std::string before_a(a->get_href()), before_u = u->get_href();
  bool ra = vk_apply_setter(*a, p1, val), ru = vk_apply_setter(*u, p1, val);
  uint64_t d = 0;
  std::string ha(a->get_href()), hu = u->get_href();
  if (ra != ru) d |= 1;
  if (ha != hu) d |= 2;
  if (!ra && ha != before_a) d |= 4;
  if (!ru && hu != before_u) d |= 8;
  if (!a->validate()) d |= 16;
  auto again = ada::parse<ada::url_aggregator>(ha);
  if (!again || again->get_href() != ha) d |= 32;
  if (a->get_host() != u->get_host() || a->get_port() != u->get_port() || a->get_pathname() != u->get_pathname() ||
      a->get_search() != u->get_search() || a->get_hash() != u->get_hash() || a->get_username() != u->get_username() ||
      a->get_password() != u->get_password() || a->get_protocol() != u->get_protocol() || a->host_type != u->host_type ||
      a->has_opaque_path != u->has_opaque_path) d |= 64;
  if (a->buffer.size() + VK_HDR <= cap && a->buffer.size() <= 255) vk_save(*a, out, cap, 1); else d |= 1ull << 40;
  return (1ull << 63) | d;
}
